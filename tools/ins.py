#!/usr/bin/env python3
"""ins.py FILE (after|before) REGEX [nth] <<< text   -- insert text lines after/before the nth (default: unique) line matching REGEX"""
import sys,re
f,where,rx=sys.argv[1:4]
nth=int(sys.argv[4]) if len(sys.argv)>4 else None
text=sys.stdin.read()
lines=open(f).read().split('\n')
idx=[i for i,l in enumerate(lines) if re.search(rx,l)]
if nth is None:
    assert len(idx)==1,(f,rx,idx)
    i=idx[0]
else:
    i=idx[nth]
ins=text.rstrip('\n').split('\n')
if where=='after': lines[i+1:i+1]=ins
else: lines[i:i]=ins
open(f,'w').write('\n'.join(lines))
