#!/bin/bash
# coverage.sh [runs per profile] : which lines of /repo/SRC do the simulated runs actually execute?
# Builds the library with gcc --coverage (pthread build, -O0) plus the simulator in a scratch directory outside /repo and /verif, runs a
# slice of every profile of checks/profiles.py in batch mode (workers flush their counters before _exit), and prints per-file line coverage
# of SRC/*.c sorted by uncovered lines.  A diagnostic for generator blind spots, not a check; the scratch directory is removed afterwards
# unless KEEP=1.  Output: build/tmp/coverage_summary.txt and build/tmp/coverage_uncovered/<file>.gcov for files below 85 %.
N=${1:-3000}
ROOT=$(cd "$(dirname "$0")/.." && pwd)
REPO=${VERIF_REPO:-/repo}
W=${COV_DIR:-/tmp/verif_cov_$$}
rm -rf "$W"; mkdir -p "$W/lib" "$W/h" "$ROOT/build/tmp/coverage_uncovered"
COMMON="-g -O0 -fno-omit-frame-pointer -D__PTHREAD -DAdd_ -DSLU_MT_VERIF -w"
SRCS=$(cd $REPO && ls SRC/*.c CBLAS/*.c | grep -v 'SRC/sp_ienv.c' | grep -v 'CBLAS/.myblas2.c')
(for f in $SRCS; do echo $f; done) | xargs -P 16 -I{} sh -c "gcc -c --coverage $COMMON -I$REPO/SRC -I$REPO/CBLAS $REPO/{} -o $W/lib/\$(echo {} | tr '/' '_' | sed 's/\.c\$/.o/')" || exit 2
ar rcs $W/libslu.a $W/lib/*.o
CXX="g++ -std=c++17 -fcx-limited-range -O2 $COMMON -DSIM_COVERAGE -I$REPO/SRC -I$ROOT/sim"
( for p in s d c z; do echo "$CXX -DPREC_$p -c $ROOT/sim/drv_impl.cc -o $W/h/drv_$p.o"; done
  for f in sim oracle gen runner monitor minimise simfact ienv; do echo "$CXX -c $ROOT/sim/$f.cc -o $W/h/$f.o"; done ) | xargs -P 16 -I{} sh -c "{}" || exit 2
g++ --coverage -rdynamic -o $W/simfact $W/h/*.o $W/libslu.a -Wl,--wrap=pthread_create,--wrap=pthread_join,--wrap=pthread_exit,--wrap=pthread_mutex_init,--wrap=pthread_mutex_destroy,--wrap=pthread_mutex_lock,--wrap=pthread_mutex_unlock,--wrap=malloc,--wrap=calloc,--wrap=realloc,--wrap=free,--wrap=exit -lpthread -ldl -lm || exit 2
for prof in ssv strf pipe term mem sing svx hist leak symleak sym carry forest tiny alloc; do
  S=8; C=$N; [ $prof = alloc ] && { S=128; C=$((N / 128 * 128 + 1280)); }
  $W/simfact batch --profile $prof --base 990000000 --count $C --workers 12 --tier 0 --S $S --out $W/sum_$prof.json --known $ROOT/known_findings.json \
     --flavour plain --replay-dir $W/replays --timeout 120 --wall-cap 600 --no-min >/dev/null 2>&1
  echo "ran $prof"
done
cd $W/lib
OUT=$ROOT/build/tmp/coverage_summary.txt
: > $OUT
for o in SRC_*.gcno; do
  b=${o%.gcno}
  r=$(gcov -o . $b.o 2>/dev/null | grep -A1 "File '$REPO/SRC/" | grep "Lines executed" | head -1)
  f=${b#SRC_}.c
  pct=$(echo "$r" | sed -n 's/Lines executed:\([0-9.]*\)% of \([0-9]*\)/\1 \2/p')
  [ -n "$pct" ] && echo "$f $pct" >> $OUT
done
python3 - $OUT $ROOT/build/tmp/coverage_uncovered <<'PY'
import sys, os, shutil
rows = []
for l in open(sys.argv[1]):
    f, pct, n = l.split(); pct = float(pct); n = int(n)
    rows.append((n - round(n * pct / 100), pct, n, f))
rows.sort(reverse=True)
tot = sum(r[2] for r in rows); unc = sum(r[0] for r in rows)
with open(sys.argv[1], 'w') as o:
    o.write('total lines %d, uncovered %d (%.1f %% covered)\n' % (tot, unc, 100.0 * (tot - unc) / max(1, tot)))
    o.write('%-34s %8s %8s %8s\n' % ('file', 'lines', 'covered%', 'uncov'))
    for u, pct, n, f in rows:
        o.write('%-34s %8d %8.1f %8d\n' % (f, n, pct, u))
        g = f + '.gcov'
        if pct < 85 and os.path.exists(g): shutil.copy(g, os.path.join(sys.argv[2], g))
print(open(sys.argv[1]).read()[:6000])
PY
cd /; [ "$KEEP" = 1 ] || rm -rf "$W"
