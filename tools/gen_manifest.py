#!/usr/bin/env python3
"""Regenerates MANIFEST.json from checks/profiles.py (single source of truth for which checks exist)."""
import json, os, subprocess, sys
ROOT = os.path.dirname(os.path.dirname(os.path.abspath(__file__)))
sys.path.insert(0, os.path.join(ROOT, 'checks'))
from profiles import CHECKS
from manifest_text import TEXT, NOT_APPLICABLE
hooks = subprocess.run(['git', '-C', '/repo', 'log', '--format=%H %s'], capture_output=True, text=True).stdout.strip().split('\n')
hook_commits = [l.split()[0] for l in hooks if l.split(' ', 1)[1].startswith('verif hooks:')]
m = {
 "version": 1,
 "setup_cmd": "sim/build.sh plain >/dev/null && sim/build.sh asan >/dev/null && sim/build.sh long >/dev/null && sim/build.sh vblas >/dev/null && sim/build.sh omp >/dev/null && sim/build.sh lasan >/dev/null",
 "hooks": {
  "guard": "SLU_MT_VERIF",
  "enable": "sim/build.sh compiles /repo/SRC/*.c (except sp_ienv.c) and /repo/CBLAS/*.c from the working tree with -DSLU_MT_VERIF -D__PTHREAD -DAdd_ (flavour omp: -D__OPENMP -fopenmp instead of -D__PTHREAD) and links them with the simulator using -Wl,--wrap=pthread_*,malloc,calloc,realloc,free,exit (flavour omp: the simulator also defines the GOMP_*/omp_* entry points, libgomp is not linked)",
  "baseline_off_cmd": "cd /repo && cmake --build _build >/dev/null && ctest --test-dir _build -j8 --timeout 900",
  "source_commits": list(reversed(hook_commits)),
  "add_only": True
 },
 "engines": [
  {"name": "simfact", "path": "sim/", "serves_properties": sorted(CHECKS.keys()),
   "kind_free_text": "deterministic simulation: the whole library (all four precisions) linked with a seeded scheduler that parks and releases real threads one at a time at intercepted lock/spin/hook points; seeded fault injection (allocation failure, thread-creation failure, undersized tunables, stalls); oracles in long double; replay files with explicit schedules; minimisation"}
 ],
 "checks": [],
 "not_applicable": NOT_APPLICABLE,
 "notes": "All checks: checks/check.sh <id> <quick|thorough>; base seed from VERIF_SEED. Known findings: known_findings.json (read-only at run time). DESIGN.md explains per-property oracles and what is not covered."
}
for pid in sorted(CHECKS.keys()):
    t = TEXT[pid]
    m["checks"].append({
     "property_id": pid,
     "quick_cmd": "checks/check.sh %s quick" % pid,
     "thorough_cmd": "checks/check.sh %s thorough" % pid,
     "evidence_file": "evidence/%s.json" % pid,
     "replay_cmd_template": "checks/replay.sh {path}",
     "engine": "simfact",
     "level_claimed": {"category": CHECKS[pid]['level'], "text": t['level_text'], "design_ref": t['design_ref']},
     "level_note": t['level_note'],
     "technique": t['technique'],
    })
json.dump(m, open(os.path.join(ROOT, 'MANIFEST.json'), 'w'), indent=1)
print('MANIFEST.json written with', len(m['checks']), 'checks')
