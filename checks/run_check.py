#!/usr/bin/env python3
"""run_check.py <property id> <quick|thorough>

Rebuilds the simulator from /repo's current working tree, runs the batches that decide one property,
writes /verif/evidence/<id>.json and follows the exit-code contract:
  0  property held on everything explored (KNOWN-FINDING lines for listed findings that were met)
  1  at least one unlisted violation: a line 'VIOLATION property=<id> replay=<path>' per class
  2  machinery fault (non-reproducible failure, gate failure); no VIOLATION line is printed
"""
import fnmatch, json, os, subprocess, sys, time

ROOT = os.path.dirname(os.path.dirname(os.path.abspath(__file__)))
sys.path.insert(0, os.path.join(ROOT, 'checks'))
from profiles import CHECKS, COMMON_ASSUMPTIONS, COMPONENTS

def build(flavour):
    r = subprocess.run([os.path.join(ROOT, 'sim', 'build.sh'), flavour], capture_output=True, text=True)
    if r.returncode != 0:
        sys.stderr.write(r.stderr[-3000:])
        print('build failed for flavour', flavour)
        sys.exit(2)
    return r.stdout.strip().split('\n')[-1]

# a run that ends in a fatal signal or a sanitizer report counts against whichever check met it: every property implies that the call returns
DEFAULT_ALSO = ['C05:fatal_signal*', 'C05:sanitizer*']

def main():
    pid, tier = sys.argv[1], (sys.argv[2] if len(sys.argv) > 2 else os.environ.get('VERIF_TIER', 'quick'))
    spec = CHECKS[pid]
    seed = int(os.environ.get('VERIF_SEED', '1'))
    t0 = time.time()
    known = json.load(open(os.path.join(ROOT, 'known_findings.json')))
    known_list = [(f['property'], f['sig']) for f in known.get('findings', [])]
    known_arg = ','.join('%s:%s' % k for k in known_list)
    evdir = os.environ.get('VERIF_EVIDENCE_DIR') or os.path.join(ROOT, 'evidence')   # selftests point this elsewhere
    os.makedirs(evdir, exist_ok=True)
    os.makedirs(os.path.join(ROOT, 'replays'), exist_ok=True)
    os.makedirs(os.path.join(ROOT, 'build', 'tmp'), exist_ok=True)
    summaries = []
    rc = 0
    for bi, b in enumerate(spec['batches']):
        count = b['quick'] if tier == 'quick' else b['thorough']
        if count <= 0:
            continue
        bd = build(b['flavour'])
        base = (seed * 1000003 + spec['seed_offset'] * 101 + bi * 7) * 100000
        out = os.path.join(ROOT, 'build', 'tmp', 'summary_%s_%d_%d.json' % (pid, bi, os.getpid()))
        cmd = [os.path.join(bd, 'simfact'), 'batch', '--profile', b['profile'], '--base', str(base), '--count', str(count),
               '--workers', str(b.get('workers', 16 if 'asan' not in b['flavour'] else 12)), '--tier', '0' if tier == 'quick' else '1',
               '--out', out, '--known', known_arg, '--flavour', b['flavour'], '--replay-dir', os.path.join(ROOT, 'replays'),
               '--timeout', str(b.get('timeout', 60 if 'asan' in b['flavour'] else 30)),
               '--wall-cap', os.environ.get('VERIF_WALL_CAP') or str(b.get('wall_cap_quick', 240) if tier == 'quick' else b.get('wall_cap_thorough', 3000))]
        if 'S' in b: cmd += ['--S', str(b['S'] if tier == 'quick' else b.get('S_thorough', b['S']))]
        r = subprocess.run(cmd, capture_output=True, text=True)
        if r.returncode not in (0, 2) or not os.path.exists(out):
            sys.stderr.write(r.stderr[-2000:])
            print('batch failed to run:', ' '.join(cmd))
            sys.exit(2)
        s = json.load(open(out)); os.unlink(out)
        s['batch'] = b
        summaries.append(s)
    # ---- verdict
    props = spec.get('props', [pid])
    viol_lines, known_lines, mach, transient = [], [], [], []
    nviol = 0
    co_observed = {}
    for s in summaries:
        for v in s['violations']:
            if v['prop'] == 'MACHINERY':
                mach.append(v); continue
            if v['prop'] not in props and not any(fnmatch.fnmatchcase('%s:%s' % (v['prop'], v['sig']), pat) for pat in spec.get('also', DEFAULT_ALSO)):
                co_observed['%s:%s' % (v['prop'], v['sig'])] = co_observed.get('%s:%s' % (v['prop'], v['sig']), 0) + v['count']
                continue
            kf = [f for f in known['findings'] if f['property'] == v['prop'] and fnmatch.fnmatchcase(v['sig'], f['sig'])]
            if kf:
                what = kf[0]['what']
                known_lines.append('KNOWN-FINDING: property=%s %s [%s; met %d times, e.g. seed %d, replay %s]' % (pid, what, v['sig'], v['count'], v['first_seed'], v.get('replay', '-')))
                continue
            if v.get('gate') == 'transient':
                transient.append(v); continue
            nviol += v['count']
            if v.get('gate') == 'ok':
                viol_lines.append('VIOLATION property=%s replay=%s' % (pid, v['replay']))
                print('  class %s/%s seen %d times, first seed %d: %s' % (v['prop'], v['sig'], v['count'], v['first_seed'], v['detail'][:300]))
                print('  minimised: %s' % v.get('min_summary', ''))
            else:
                mach.append(v)
    if any(s.get('machinery_faults', 0) for s in summaries) or mach:
        # unreproducible classes invalidate the run only if nothing reproducible was found:
        # reproducible violations are reported (exit 1) and the unreproducible ones listed next to them
        rc = 2 if not viol_lines else 0
    # ---- evidence
    runs = sum(s['runs'] for s in summaries)
    wall = time.time() - t0
    cov = {
        'evaluations': runs,
        'distinct_nontrivial': sum(s['distinct_nontrivial'] for s in summaries),
        'rule': spec['rule'],
        'samples': [x for s in summaries for x in s['samples']][:6],
        'simulated_runs': runs,
        'runs_per_hour': round(sum(s['runs'] for s in summaries) / max(1e-9, sum(s['wall_s'] for s in summaries)) * 3600),
        'simulated_time_steps': sum(s['sim_steps'] for s in summaries),
        'scheduling_decisions': sum(s['decisions'] for s in summaries),
        'context_switches': sum(s['switches'] for s in summaries),
        'hook_events': sum(s['events'] for s in summaries),
        'distinct_interleavings_h_sched': sum(s['distinct_h_sched'] for s in summaries),
        'distinct_observable_behaviours_h_obs': sum(s['distinct_h_obs'] for s in summaries),
        'distinct_scheduler_shapes_h_shape': sum(s['distinct_h_shape'] for s in summaries),
        'seeds': [{'profile': s['profile'], 'flavour': s['flavour'], 'first': s['base_seed'], 'count': s['count'], 'runs': s['runs'], 'capped': s['capped']} for s in summaries],
        'faults_fired': merge([s['faults_fired'] for s in summaries]),
        'run_endings': merge([s['ends'] for s in summaries]),
        'probes': merge([s['probes'] for s in summaries]),
        'excluded_classes': merge([s['excluded'] for s in summaries]),
        'by_precision': merge([s['by_prec'] for s in summaries]),
        'by_family': merge([s['by_family'] for s in summaries]),
        'by_size': merge([s['by_n'] for s in summaries]),
        'by_nprocs': merge([s['by_nprocs'] for s in summaries]),
        'by_strategy': {{'0': 'uniform', '1': 'sticky', '2': 'pct', '3': 'stall (slow node: victim frozen after a chosen event)', '4': 'serial'}.get(k, k): v
                        for k, v in merge([s['by_strategy'] for s in summaries]).items()},
        'fault_kinds': {
            'allocation_failure_fired': merge([s['faults_fired'] for s in summaries]).get('alloc_fail_fired', 0),
            'thread_creation_failure_fired': merge([s['faults_fired'] for s in summaries]).get('thread_create_fail_fired', 0),
            'abort_path_taken_under_fault': merge([s['probes'] for s in summaries]).get('abort_under_fault', 0),
            'storage_estimate_exceeded_diagnostic': merge([s['probes'] for s in summaries]).get('abort_storage_exceeded', 0),
            'stall_strategy_runs': merge([s['by_strategy'] for s in summaries]).get('3', 0),
            'caller_workspace_calls': merge([s['probes'] for s in summaries]).get('user_workspace_calls', 0),
            'not_applicable_here': 'message loss/duplication/reordering, partitions, crash-restart with durable state, clock skew, torn writes, full disks: the library has no network, disk, durable state, timer or retry for them to act on',
        },
        'co_observed_other_properties': co_observed,
        'known_findings_met': known_lines,
        'components': COMPONENTS,
        'exhaustive': False,
    }
    # forest enumeration: fold the per-shape counters into one figure per size
    shapes = {}
    for k in list(cov['probes']):
        if k.startswith('fshape:'):
            n_ = k.split(':')[1]; shapes[n_] = shapes.get(n_, 0) + 1; del cov['probes'][k]
    if shapes:
        cov['elimination_forest_shapes_factorized'] = {'by_columns': {('n=%s' % k): v for k, v in sorted(shapes.items())},
            'note': 'distinct postordered elimination forests (as numbered by the library) that were factorized with info = 0; the number of postordered forests on n nodes is the Catalan number 1, 2, 5, 14, 42, 132, 429, 1430'}
        cov['probes']['forest_shapes_distinct'] = sum(shapes.values())
    if transient:
        cov['watchdog_limit_exceeded_under_load_but_completed_on_reexecution'] = sum(v['count'] for v in transient)
    zero = [p for p in spec.get('must_probe', []) if cov['probes'].get(p, 0) == 0]
    if zero:
        cov['probes_stuck_at_zero'] = zero
        print('WARNING: probes stuck at zero in this run:', ', '.join(zero))
    ev = {'property_id': pid, 'tier': tier, 'seed': seed, 'level': spec['level'], 'coverage': cov,
          'assumptions': COMMON_ASSUMPTIONS + spec.get('assumptions', []), 'wall_s': round(wall, 2), 'violations': nviol}
    with open(os.path.join(evdir, pid + '.json'), 'w') as f:
        json.dump(ev, f, indent=1)
    seen = set()
    for l in known_lines:
        key = l.split(' [')[0]
        if key not in seen: print(l)
        seen.add(key)
    if rc == 2:
        print('MACHINERY FAULT: a failure could not be reproduced deterministically or a worker died outside a run; see evidence')
        for v in mach: print('  ', json.dumps(v)[:400])
        sys.exit(2)
    for l in viol_lines: print(l)
    if viol_lines and mach:
        print('NOTE: %d further class(es) of this property did not reproduce in a fresh process (layout-dependent crashes after memory corruption) and are not reported as violations:' % len(mach))
        for v in mach: print('   %s/%s seen %d times, first seed %s' % (v.get('prop'), v.get('sig'), v.get('count', 0), v.get('first_seed')))
    print('%s %s: %d runs, %d distinct non-trivial, %.1f s, %s' % (pid, tier, runs, cov['distinct_nontrivial'], wall, 'VIOLATIONS' if viol_lines else 'ok'))
    sys.exit(1 if viol_lines else 0)

def merge(ds):
    o = {}
    for d in ds:
        for k, v in d.items(): o[k] = o.get(k, 0) + v
    return o

if __name__ == '__main__':
    main()
