NOT_APPLICABLE_ALL = {
 "C10": "orderings/etree/postorder are a pure sequential function of the sparsity pattern and option; no schedule, fault, clock or history enters the statement (DESIGN.md section 5)",
 "C11": "equilibration scale factors and apply rule are pure functions of the matrix values; the driver wiring clause is asserted inside C07 (DESIGN.md section 5)",
 "C15": "argument checking is a pure function of the argument list with no concurrency, I/O or fault handling behind it (DESIGN.md section 5)",
 "C19": "sparse BLAS kernels, norms and format conversions are pure sequential functions of their inputs (DESIGN.md section 5)",
 "C20": "file readers consume well-formed input through stdio; a simulated stream layer cannot change anything the code observes (DESIGN.md section 5)",
}
_DST = "deterministic simulation with fault injection: seeded search over thread schedules"
_NOTE = ("trusted: the simulator (validated by selftest/determinism.sh and the seeded mutants in seeded/), long-double reference arithmetic, libc; "
         "sequentially consistent interleavings at hook/lock granularity only; PTHREAD build with built-in BLAS; sampling, not enumeration")
TEXT = {
 "C01": dict(level_text="seeded exploration of (matrix, configuration, schedule) triples through the real p?gssv under the simulator's scheduler; every run is checked against the componentwise residual bound gamma(3n) E|X| computed from the returned factors in long double, info = 0 on reference-certified nonsingular inputs and bit-identity of A",
             design_ref="3/C01", level_note=_NOTE, technique=_DST + "; oracle = rigorous backward-error bound evaluated in extended precision"),
 "C02": dict(level_text="seeded exploration of factorizations (p?gstrf through p?gstrf_init, p?gssv and p?gssvx) over thresholds, panel/relax/maxsuper/blocking parameters, storage modes and schedules; dense reconstruction |Pr A Pc - LU| <= gamma(n)|L||U|, multiplier bound and diagonal-preference rule recomputed from the returned factors",
             design_ref="3/C02", level_note=_NOTE, technique=_DST + "; oracle = dense reconstruction and pivot-rule replay in extended precision"),
 "C03": dict(level_text="invariants I1-I7 of DESIGN.md evaluated while each simulated run proceeds (read-after-final, no writer under a reader, update ranges disjoint, hand-out rule, snapshot covers the busy chain, waits inside the snapshot, lock discipline), on chain-like elimination trees with narrow panels and stall-biased schedules",
             design_ref="3/C03", level_note=_NOTE + "; numeric completeness of the updates is co-observed through C02's oracle on the same runs", technique=_DST + "; runtime invariants over a shadow state built from guarded hook events"),
 "C04": dict(level_text="scheduler verdicts (deadlock, livelock, step budget, wall watchdog) plus exactly-once accounting of panels/columns, queue bounds, tasks_remain consistency inside the critical section and thread accounting at return, with oversubscribed thread counts, late starts and thread-creation faults",
             design_ref="3/C04", level_note=_NOTE + "; liveness is bounded: completion within 64 x serial step count + 10000 productive steps", technique=_DST + " and thread-creation faults; bounded liveness by step budget"),
 "C05": dict(level_text="ASan build of the whole library under simulated schedules plus a slot-bound monitor at every L-supernode allocation (the check the library has #if 0'd) for static and dynamic storage, and undersized sp_ienv(6/7/8) as injected faults whose only legal outcomes are the library's diagnostic or a correct result",
             design_ref="3/C05", level_note=_NOTE + "; overruns inside one heap block are only visible through the slot monitor", technique=_DST + " and undersized-tunable faults; ASan + allocation-slot invariants"),
 "C06": dict(level_text="seeded exploration of singular inputs (explicit zero columns/rows, structurally empty columns/rows, Hall violations, duplicated columns, several singular columns in different workers) through both drivers and p?gstrf under simulated schedules and ASan; info must equal the first column at which the library itself saw an all-zero candidate set, must agree with symbolic elimination where that guarantees an exact zero, no solution may be written, returned objects must be inspectable and destroyable",
             design_ref="3/C06", level_note=_NOTE + "; crashes and slot overruns in this profile count for C06 as well (never by crash or corruption)", technique=_DST + " over singular inputs; oracle = library-observed zero pivots cross-checked by symbolic elimination"),
 "C07": dict(level_text="seeded exploration of p?gssvx over trans x storage x fact (incl. FACTORED after a first call) x forced equilibration outcomes x precision under simulated schedules; A_out/B_out against equed/R/C, true componentwise backward error of X against the original system in the contracting class, and the unrefined residual bound through ?gstrs with the returned factors in every class",
             design_ref="3/C07", level_note=_NOTE + "; the option lattice is configuration sampling, the schedule-dependent part is the layout of the factors the solves consume", technique=_DST + "; oracle = extended-precision backward error and scaling identities"),
 "C12": dict(level_text="seeded exploration of p?gssvx: rcond between the true reciprocal condition number and the estimator's first-step bound (reference inverse in long double, norm chosen by the user's transpose option), info = n+1 iff rcond < eps with X still delivered, reciprocal pivot growth recomputed from the returned factors; forest elimination trees and >= 2 threads make supernode numbers non-monotone",
             design_ref="3/C12", level_note=_NOTE + "; rcond bounds only in the admitted class cond*growth*n*eps <= 1e-3 and u >= 0.1", technique=_DST + "; oracle = reference inverse in extended precision"),
 "C13": dict(level_text="seeded exploration of p?gssvx: berr against the true componentwise backward error of the returned X for the equilibrated system in the requested transpose sense (|re|+|im| magnitudes in the complex precisions, as the library and LAPACK define it), berr <= 4(n+1)eps for cond < 1/sqrt(eps), ferr times the LAPACK slack 10 against the error versus a refined long-double reference solution",
             design_ref="3/C13", level_note=_NOTE, technique=_DST + "; oracle = extended-precision reference solution and backward error"),
 "C08": dict(level_text="seeded exploration of call histories over one pattern through the expert driver and through p?gstrf_init/p?gstrf/?gstrs, internal memory and caller workspace, thread count and schedule drawn anew per call, genuinely new values per refactorization; every call is checked with the C01/C02/C07/C09 oracles for the values current at that call, pivot reuse is checked against a long-double elimination along the old row order, and solve-only calls must leave A, L, U and both permutations bit-identical",
             design_ref="3/C08", level_note=_NOTE + "; the pivot-reuse clause is asserted only when every old pivot clearly passes (margin 1e-3) on a well-conditioned matrix", technique=_DST + " over operation histories; reference model of values, permutations and factor checksums"),
 "C09": dict(level_text="structural oracle over every successful factorization of the explored runs: permutations, supernode partition and maps, row-list shape, extent disjointness, nnz recounts, dependency order of supernode numbers; layouts are schedule-dependent (numbering order != storage order is probed)",
             design_ref="3/C09", level_note=_NOTE, technique=_DST + "; structural oracle over returned L/U"),
}
import os, sys
sys.path.insert(0, os.path.dirname(os.path.abspath(__file__)))
from profiles import CHECKS
NOT_APPLICABLE = [{"property_id": k, "reason": v} for k, v in sorted(NOT_APPLICABLE_ALL.items())]
_PENDING = "check not built yet in this revision of /verif (planned: see DESIGN.md section 3); nothing is claimed for it"
for _p in ["C06", "C07", "C08", "C12", "C13", "C14", "C16", "C17", "C18"]:
    if _p not in CHECKS:
        NOT_APPLICABLE.append({"property_id": _p, "reason": _PENDING})
