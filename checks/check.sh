#!/bin/bash
# check.sh <property id> <quick|thorough>
cd "$(dirname "$0")/.." && exec python3 checks/run_check.py "$@"
