# Batches that decide each property: (profile, flavour, runs in quick tier, runs in thorough tier).
COMMON_ASSUMPTIONS = [
    "executions are sequentially consistent at hook/lock granularity: compiler/CPU reorderings and preemption between two statements with no hook between them are not explored",
    "only the PTHREAD build is simulated; the OpenMP variant shares all code except the pragmas in p?gstrf.c, pxgstrf_scheduler.c, pmemory.c, pxgstrf_synch.c",
    "built-in BLAS kernels (CBLAS/ and ?myblas2.c from the repository); the vendor-BLAS configuration is not part of this run",
    "seeded sampling, not enumeration: a clean batch is evidence, not proof",
    "libc, the allocator and the long-double reference oracles are trusted",
]
COMPONENTS = {
    "real_code": ["every SRC/*.c except sp_ienv.c (all four precisions)", "CBLAS/*.c"],
    "simulated": ["pthread_create/join/mutex_* (link-time wrappers; seeded scheduler decides who runs)", "malloc/calloc/realloc/free (accounting + failure plan)",
                  "exit() (abort path interception)", "sp_ienv() (tuning parameters per run)", "SuperLU_DYNAMIC_SNODE_STORE (environment, per run)"],
    "stubbed": [],
}
RULE_A = ("cases are generated from the seed: configuration (pattern family, values, precision, storage, ordering, nprocs, sp_ienv values, storage mode) from seed div 8, "
          "strategy/schedule/fault plan from the seed itself; the first seed of each group of 8 is the serial-strategy baseline. A case is non-trivial if it has >= 2 worker "
          "threads, >= 2 columns and at least one scheduling decision with >= 2 enabled tasks; distinct = distinct (H_sched, H_obs) pair, i.e. a different sequence of "
          "scheduling decisions or a different observable event/output history")

CHECKS = {
 'C01': dict(seed_offset=1, level='exploration', rule=RULE_A, props=['C01'],
             batches=[dict(profile='ssv', flavour='plain', quick=60000, thorough=3000000), dict(profile='ssv', flavour='asan', quick=4000, thorough=150000)],
             must_probe=['solves_checked', 'spin_blocks', 'numbering_ne_storage_order', 'nprocs_gt_n']),
 'C02': dict(seed_offset=2, level='exploration', rule=RULE_A, props=['C02'],
             batches=[dict(profile='strf', flavour='plain', quick=60000, thorough=3000000), dict(profile='strf', flavour='asan', quick=4000, thorough=150000)],
             must_probe=['factorizations_checked', 'update_2d', 'supernode_spans_two_panels', 'panel_split_at_top', 'offdiag_pivots']),
 'C03': dict(seed_offset=3, level='exploration', rule=RULE_A, props=['C03'],
             batches=[dict(profile='pipe', flavour='plain', quick=60000, thorough=3000000), dict(profile='strf', flavour='plain', quick=20000, thorough=1000000)],
             must_probe=['pipeline_waits', 'busy_chain_ge3_panels', 'supernode_spans_two_panels', 'canpipe_panel_taken', 'row_interchanges']),
 'C04': dict(seed_offset=4, level='exploration', rule=RULE_A, props=['C04'],
             batches=[dict(profile='term', flavour='plain', quick=60000, thorough=3000000), dict(profile='pipe', flavour='plain', quick=20000, thorough=1000000)],
             must_probe=['nprocs_gt_n', 'idle_polls']),
 'C05': dict(seed_offset=5, level='exploration', rule=RULE_A, props=['C05'],
             batches=[dict(profile='mem', flavour='asan', quick=8000, thorough=300000), dict(profile='mem', flavour='plain', quick=40000, thorough=2000000)],
             must_probe=['lusup_allocs_checked', 'dyn_slots', 'abort_storage_exceeded']),
 'C09': dict(seed_offset=9, level='exploration', rule=RULE_A, props=['C09'],
             batches=[dict(profile='strf', flavour='plain', quick=60000, thorough=3000000), dict(profile='ssv', flavour='plain', quick=20000, thorough=1000000)],
             must_probe=['factorizations_checked', 'numbering_ne_storage_order']),
}
