# Batches that decide each property: (profile, flavour, runs in quick tier, runs in thorough tier).
COMMON_ASSUMPTIONS = [
    "executions are sequentially consistent at hook/lock granularity: compiler/CPU reorderings and preemption between two statements with no hook between them are not explored",
    "the PTHREAD build is simulated everywhere; the OpenMP build (-D__OPENMP -fopenmp, PLAT=_OPENMP) runs in the batches of flavour 'omp', where the five libgomp entry points the library uses (GOMP_parallel, GOMP_critical_name_start/end, omp_get_thread_num/num_threads) are provided by the simulator: the team is made of simulated tasks, each named critical section is a simulated mutex; libgomp itself is not linked. Solaris, DEC, SGI, Cray variants are not simulated",
    "built-in BLAS kernels (CBLAS/ and ?myblas2.c from the repository) except in the batches of flavour 'vblas' (-DUSE_VENDOR_BLAS, system OpenBLAS forced to one thread; OpenBLAS itself is trusted)",
    "32-bit indices except in the batches of flavour 'long' (-D_LONGINT) and 'lasan' (-D_LONGINT under ASan) listed under coverage.seeds",
    "seeded sampling, not enumeration: a clean batch is evidence, not proof",
    "libc, the allocator and the long-double reference oracles are trusted",
]
COMPONENTS = {
    "real_code": ["every SRC/*.c except sp_ienv.c (all four precisions)", "CBLAS/*.c"],
    "simulated": ["pthread_create/join/mutex_* (link-time wrappers; seeded scheduler decides who runs)", "flavour omp: GOMP_parallel, GOMP_critical_name_start/end, omp_get_thread_num, omp_get_num_threads (defined by the simulator instead of libgomp; team size seeded: nprocs, fewer, or more)", "malloc/calloc/realloc/free (accounting + failure plan)",
                  "exit() (abort path interception)", "sp_ienv() (tuning parameters per run)", "SuperLU_DYNAMIC_SNODE_STORE (environment, per run)"],
    "stubbed": [],
}
RULE_A = ("cases are generated from the seed: configuration (pattern family, values, precision, storage, ordering, nprocs, sp_ienv values, storage mode) from seed div 8, "
          "strategy/schedule/fault plan from the seed itself; the first seed of each group of 8 is the serial-strategy baseline. A case is non-trivial if it has >= 2 worker "
          "threads, >= 2 columns and at least one scheduling decision with >= 2 enabled tasks; distinct = distinct (H_sched, H_obs) pair, i.e. a different sequence of "
          "scheduling decisions or a different observable event/output history")

TINY_RULE = ('; the `tiny` batch is an enumerating profile: configuration (seed div S) = every 0/1 pattern with n <= 3 (quick: 530 patterns) / n <= 4 (thorough: 66 066 patterns), structurally singular ones included; '
             'item (seed mod S) k < n! gives the entry in row pi_k(j) of column j a 16-fold larger magnitude so that partial pivoting is steered towards the k-th pivot order (the order actually taken is observed, not assumed), further items use unsteered values; '
             'precision, storage, ordering, tunables, driver and 1..3 threads are seeded')
FOREST_BATCH = dict(profile='forest', flavour='plain', quick=3528 * 8, thorough=36990 * 64, S=8, S_thorough=64)
FOREST_RULE = '; the `forest` batch is an enumerating profile: configuration (seed div S) walks through every postordered elimination forest with 1..6 columns (quick; 1..8 thorough: 2055 forests) x panel size 1..3 x relaxation 1..3 x 2..3 threads, the matrix is built to have exactly that column elimination tree (row j = columns j and parent(j), plus seeded entries in further ancestors), S = 8 (quick) / 64 (thorough) seeded schedules per configuration; the schedules of each configuration are sampled, not enumerated. A run that ends in a fatal signal counts against this check too (the routine did not return)'

CHECKS = {
 'C01': dict(seed_offset=1, level='exploration', rule=RULE_A, props=['C01'],
             batches=[dict(profile='ssv', flavour='plain', quick=60000, thorough=3000000), dict(profile='ssv', flavour='asan', quick=4000, thorough=150000), dict(profile='ssv', flavour='long', quick=8000, thorough=400000), dict(profile='ssv', flavour='vblas', quick=8000, thorough=400000), dict(profile='ssv', flavour='omp', quick=10000, thorough=500000), dict(profile='ssv', flavour='lasan', quick=3000, thorough=100000)],
             must_probe=['solves_checked', 'spin_blocks', 'numbering_ne_storage_order', 'nprocs_gt_n']),
 'C02': dict(seed_offset=2, level='exploration', rule=RULE_A + TINY_RULE, props=['C02'],
             batches=[dict(profile='strf', flavour='plain', quick=60000, thorough=3000000), dict(profile='strf', flavour='asan', quick=4000, thorough=150000), dict(profile='strf', flavour='long', quick=8000, thorough=400000), dict(profile='strf', flavour='vblas', quick=8000, thorough=400000), dict(profile='strf', flavour='omp', quick=10000, thorough=500000), dict(profile='tiny', flavour='plain', quick=530 * 8, thorough=66066 * 32, S=8, S_thorough=32)],
             must_probe=['factorizations_checked', 'update_2d', 'supernode_spans_two_panels', 'panel_split_at_top', 'offdiag_pivots']),
 'C03': dict(seed_offset=3, level='exploration', rule=RULE_A + FOREST_RULE, props=['C03', 'C02'], also=['C05:fatal_signal*', 'C05:sanitizer*'],
             batches=[dict(profile='pipe', flavour='plain', quick=60000, thorough=3000000), dict(profile='strf', flavour='plain', quick=20000, thorough=1000000), FOREST_BATCH, dict(profile='pipe', flavour='omp', quick=20000, thorough=1000000)],
             must_probe=['pipeline_waits', 'busy_chain_ge3_panels', 'supernode_spans_two_panels', 'canpipe_panel_taken', 'row_interchanges', 'update_extents_checked', 'forest_etree_as_intended', 'forest_shapes_distinct']),
 'C04': dict(seed_offset=4, level='exploration', rule=RULE_A + FOREST_RULE + '; the `alloc` batch is C14\'s enumeration of failed allocator requests and caller-workspace sizes: after every such fault the routine must still return or end through the abort path with no thread left', props=['C04'], also=['C05:fatal_signal*', 'C05:sanitizer*'],
             batches=[dict(profile='term', flavour='plain', quick=60000, thorough=3000000), dict(profile='pipe', flavour='plain', quick=20000, thorough=1000000), FOREST_BATCH, dict(profile='term', flavour='omp', quick=20000, thorough=1000000),
                      dict(profile='alloc', flavour='plain', quick=128 * 24, thorough=1024 * 100, S=128, S_thorough=1024)],
             must_probe=['nprocs_gt_n', 'idle_polls', 'forest_etree_as_intended', 'forest_shapes_distinct', 'abort_under_fault', 'returned_info_gt_n']),
 'C05': dict(seed_offset=5, level='exploration', rule=RULE_A + TINY_RULE, props=['C05'],
             batches=[dict(profile='mem', flavour='asan', quick=8000, thorough=300000), dict(profile='mem', flavour='plain', quick=40000, thorough=2000000),
                      dict(profile='sym', flavour='plain', quick=16000, thorough=800000), dict(profile='sym', flavour='asan', quick=2000, thorough=80000),
                      dict(profile='mem', flavour='long', quick=8000, thorough=400000), dict(profile='mem', flavour='lasan', quick=4000, thorough=150000), dict(profile='tiny', flavour='asan', quick=530 * 8, thorough=66066 * 8, S=8, S_thorough=8)],
             must_probe=['lusup_allocs_checked', 'dyn_slots', 'abort_storage_exceeded']),
 'C06': dict(seed_offset=6, level='exploration', rule=RULE_A + TINY_RULE, props=['C06', 'C05'],
             batches=[dict(profile='sing', flavour='plain', quick=50000, thorough=2500000), dict(profile='sing', flavour='asan', quick=5000, thorough=200000), dict(profile='tiny', flavour='plain', quick=530 * 8, thorough=66066 * 32, S=8, S_thorough=32)],
             must_probe=['singular_runs', 'structural_zero_column_runs', 'sing_profile_nonsingular_runs', 'zero_pivot_columns'],
             assumptions=["the structural-rank clause is asserted exactly only where symbolic elimination along the library's own pivot sequence leaves a structurally empty candidate set; rank deficiency that appears as cancellation between computed quantities is counted (inexact_cancellation_class), not asserted"]),
 'C07': dict(seed_offset=7, level='exploration', rule=RULE_A, props=['C07'],
             batches=[dict(profile='svx', flavour='plain', quick=40000, thorough=2000000), dict(profile='svx', flavour='asan', quick=3000, thorough=100000), dict(profile='svx', flavour='vblas', quick=8000, thorough=400000)],
             must_probe=['svx_calls_checked', 'svx_equed_1', 'svx_equed_2', 'svx_equed_3', 'svx_contracting_class', 'svx_unrefined_solves_checked', 'svx_trans_2_NC_fact2', 'svx_trans_1_NR_fact1']),
 'C12': dict(seed_offset=12, level='exploration', rule=RULE_A, props=['C12'],
             batches=[dict(profile='svx', flavour='plain', quick=40000, thorough=2000000), dict(profile='strf', flavour='plain', quick=24000, thorough=1200000)],
             must_probe=['svx_rcond_checked', 'svx_rpg_checked', 'svx_info_n_plus_1', 'numbering_ne_storage_order', 'gscon_direct_rcond_checked']),
 'C13': dict(seed_offset=13, level='exploration', rule=RULE_A, props=['C13'],
             batches=[dict(profile='svx', flavour='plain', quick=40000, thorough=2000000)],
             must_probe=['svx_berr_checked', 'svx_berr_small_checked', 'svx_ferr_checked']),
 'C08': dict(seed_offset=8, level='exploration', rule=RULE_A + "; a case here is a history of 2..8 operations over one sparsity pattern (first factorization, refactorizations with new values and optional pivot reuse, solves with existing factors, destroy + first factorization again), nprocs/strategy/schedule drawn anew per operation; the `alloc` batch adds C14's two-call configurations (re-factorization / factor reuse in a caller workspace of every boundary size, with more threads than the first call); a fifth of the histories starts from an exactly singular first factorization (zero column, zero row or two equal columns; info in 1..n with factors and perm_r handed back) made by 2..4 threads, mostly with one of them held back, and then refactorizes nonsingular values, mostly with pivot reuse at u = 0 or 0.01",
             props=['C08', 'C01', 'C02', 'C09', 'C07'],
             batches=[dict(profile='hist', flavour='plain', quick=25000, thorough=1500000), dict(profile='hist', flavour='asan', quick=2500, thorough=100000), dict(profile='hist', flavour='long', quick=4000, thorough=200000), dict(profile='hist', flavour='omp', quick=4000, thorough=200000), dict(profile='alloc', flavour='plain', quick=128 * 48, thorough=1024 * 100, S=128, S_thorough=1024)],
             must_probe=['refactorizations', 'factored_calls', 'factor_reuse_solves_checked', 'usepr_all_old_pivots_pass', 'usepr_old_pivot_fails', 'user_workspace_calls', 'refactorizations_after_singular_factorization', 'pivot_reuse_after_singular_factorization']),
 'C14': dict(seed_offset=14, level='fault_enumeration',
             rule=("enumerating profile: configuration = seed div 128 (pattern, values, precision, driver, nprocs 1..4, tunables; 40 % of the configurations are two-call configurations: a fault-free first factorization through the expert driver "
                   "followed by the call under test, which is a re-factorization with new values (pivot reuse or not, often with more threads than the first call) or a solve with fact = FACTORED - faults, query and workspace sizes then refer to that second call, "
                   "the caller workspace being the one handed to the first call); item = seed mod 128: 0 fault-free baseline (counts the K allocator "
                   "requests of the driver call), 1 workspace query, 2 sufficient caller workspace, then for k = 1..48 (and a seeded sample of larger k) 'fail request k and all later ones' and 'fail only request k', "
                   "then caller-workspace sizes at cumulative boundaries of a sufficient run +- one word (always including the peak) and seeded sizes; thorough tier: 1024 items per configuration, i.e. every k. "
                   "A case is non-trivial if it has >= 2 worker threads, >= 2 columns and a scheduling decision; distinct = distinct (H_sched, H_obs)"),
             props=['C14', 'C01', 'C02', 'C07', 'C09', 'C05', 'C04', 'C12', 'C13', 'C17'],
             batches=[dict(profile='alloc', flavour='plain', quick=128 * 60, thorough=1024 * 400, S=128, S_thorough=1024), dict(profile='alloc', flavour='asan', quick=128 * 12, thorough=1024 * 40, S=128, S_thorough=1024), dict(profile='alloc', flavour='omp', quick=128 * 12, thorough=1024 * 40, S=128, S_thorough=1024)],
             must_probe=['alloc_mode_3', 'alloc_mode_4', 'alloc_mode_5', 'alloc_second_call_refactorization', 'alloc_second_call_factored', 'workspace_queries', 'abort_under_fault', 'returned_info_gt_n', 'workspace_size_sufficient_after_all', 'user_workspace_calls', 'alloc_returns_leak_checked'],
             assumptions=["a call that returns info = 0 after an injected failure is accepted only if its result passes the full oracles (counted as succeeded_despite_failed_request)",
                          "allocator requests are counted inside the driver call only (orderings computed by get_perm_c before the call are outside the armed window)"]),
 'C16': dict(seed_offset=16, level='exploration', rule=RULE_A + "; patterns have a full diagonal (half of them symmetrized), values are row- and column-diagonally dominant, SymmetricMode = YES, u = 0, ordering MMD on A'+A (85 %; other orderings are co-observed only)",
             props=['C16', 'C05', 'C02', 'C07', 'C09'],
             batches=[dict(profile='sym', flavour='plain', quick=40000, thorough=2000000), dict(profile='sym', flavour='asan', quick=3000, thorough=100000)],
             must_probe=['sym_runs_checked', 'sym_runs_mmd_at_plus_a', 'lusup_allocs_checked', 'factorizations_checked']),
 'C17': dict(seed_offset=17, level='exploration', rule=RULE_A + "; a case here is a history (as in C08) extended with early-return calls (workspace query, illegal argument, exactly singular matrix, caller workspace too small) that ends with the documented destroy calls and is executed twice in a row; the ordering call (get_perm_c) is part of each repetition; a second batch runs SymmetricMode = YES histories (query, factor, reuse, refactor, destroy) on the symmetric-mode matrix class of C16; a third batch is C14's enumeration of workspace sizes and failed requests, where every call that returns (query, sufficient and too-small caller workspace) is followed by the destroy calls and the same accounting",
             props=['C17'],
             batches=[dict(profile='leak', flavour='plain', quick=20000, thorough=1000000),
                      dict(profile='symleak', flavour='plain', quick=6000, thorough=300000),
                      dict(profile='alloc', flavour='plain', quick=128 * 16, thorough=1024 * 100, S=128, S_thorough=1024)],
             must_probe=['leak_histories_checked', 'workspace_queries', 'illegal_argument_calls', 'workspace_too_small_returns', 'refactorizations', 'factored_calls',
                         'ordering_calls_leak_checked', 'ordering_calls_empty_adjacency', 'helper_conversion_calls_leak_checked', 'helper_conversion_calls_empty_matrix', 'gscon_direct_calls', 'cfg_symmetric_mode', 'alloc_returns_leak_checked', 'returned_info_gt_n'],
             assumptions=["accounting covers every malloc/calloc/realloc/free issued inside a library call (link-time wrappers); thread accounting is the simulator's own (created = finished = joined, checked on every call of every profile)",
                          "runs that end in the abort path are not leak-checked (the process is gone)"]),
 'C18': dict(seed_offset=18, level='exploration',
             rule=("each case = (prefix, probe): the prefix is one or two generated cases of other profiles (call histories with refactorization and factor reuse, leak histories with error returns, expert-driver calls, singular inputs, "
                   "undersized tunables) on other sizes, precisions and memory modes, executed in a long-lived worker that has already run all earlier seeds; the probe is a first-time factorization/solve generated from the same seed. "
                   "The probe's H_obs (every hook event and the bit patterns of info, permutations, factors, X) must equal the H_obs of the same probe executed as the first library call of a pristine process (forked from a zygote that never ran library code). "
                   "Non-trivial: probe with >= 2 worker threads, >= 2 columns and a scheduling decision; distinct = distinct (H_sched, H_obs) of the probe"),
             props=['C18'],
             batches=[dict(profile='carry', flavour='plain', quick=16000, thorough=800000)],
             must_probe=['carry_probes_compared', 'carry_prefix_cases'],
             assumptions=["bit-identity is demanded for every thread count, because the simulator makes the probe a pure function of its seed; a mismatch is first re-examined with two pristine processes (differing there = machinery fault, exit 2)"]),
 'C09': dict(seed_offset=9, level='exploration', rule=RULE_A, props=['C09'],
             batches=[dict(profile='strf', flavour='plain', quick=60000, thorough=3000000), dict(profile='ssv', flavour='plain', quick=20000, thorough=1000000)],
             must_probe=['factorizations_checked', 'numbering_ne_storage_order']),
}
