#!/bin/bash
# replay.sh <replay file> : re-executes a replay file in a fresh process with the flavour it was found with.
# Exit 1 + "VIOLATION property=<id> replay=<path>" if the violation reproduces, 0 otherwise.
cd "$(dirname "$0")/.."
F=$1
FLAV=$(python3 -c "import json,sys; print(json.load(open(sys.argv[1])).get('flavour','plain'))" "$F")
BD=$(sim/build.sh $FLAV 2>/dev/null | tail -1)
exec $BD/simfact replay "$F"
