#!/bin/bash
# process_mutant.sh <worktree> <id> <property> "<needs>" <check>... : verify a sub-agent's seeded change, store it, run the named quick checks on it
WT=$1; ID=$2; PROP=$3; NEEDS=$4; shift 4
cd ${VERIF_HOME:-/verif}
V=$(selftest/verify_mutant.sh $WT 2>&1 | tail -1)
echo "$ID verify: $V"
[ "$V" = CONFIRMED ] || exit 1
git -C $WT diff -- SRC > $WT/demo/patch.diff
selftest/store_mutant.sh $ID $PROP $WT "$NEEDS"
res=()
for C in "$@"; do
  line=$(selftest/run_mutant.sh $ID $C 2>&1 | tail -1); echo "$line" | cut -c1-600
  rc=$(echo "$line" | sed -n 's/.* exit=\([0-9]*\) .*/\1/p'); res+=("$C:$rc")
done
python3 - $ID "${res[@]}" <<'PY'
import json,sys
import os; p=os.environ.get('VERIF_HOME','/verif')+'/seeded/%s/meta.json'%sys.argv[1]; d=json.load(open(p))
d['checks_run']=[{'check':x.split(':')[0],'tier':'quick','result':{'1':'VIOLATION reported (exit 1)','0':'not detected (exit 0)','2':'machinery fault (exit 2)'}.get(x.split(':')[1],x.split(':')[1])} for x in sys.argv[2:]]
json.dump(d,open(p,'w'),indent=1)
PY
