#!/bin/bash
# run_mutant.sh <seeded id> [check ids...] : apply seeded/<id>/patch.diff to /repo, run the quick checks, undo.
# Prints one line per check: <id> <check> exit=<rc> <VIOLATION lines>
ID=$1; shift
cd /verif
P=seeded/$ID/patch.diff
git -C /repo diff --quiet || { echo "/repo working tree not clean"; exit 2; }
git -C /repo apply $PWD/$P || { echo "patch does not apply"; exit 2; }
for C in "$@"; do
  out=$(VERIF_SEED=${VERIF_SEED:-1} checks/check.sh $C quick 2>&1); rc=$?
  echo "$ID $C exit=$rc $(echo "$out" | grep -c '^VIOLATION') violation line(s): $(echo "$out" | grep '^  class' | head -3 | cut -c1-160 | tr '\n' '|')"
  echo "$out" > build/tmp/mutant_${ID}_$C.out
done
git -C /repo checkout -- .
