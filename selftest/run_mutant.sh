#!/bin/bash
# run_mutant.sh <seeded id> [check ids...] : apply seeded/<id>/patch.diff to a scratch worktree of /repo's HEAD (outside /repo and /verif,
# removed afterwards), run the quick checks against it (VERIF_REPO), print one line per check:
#   <id> <check> exit=<rc> <n> violation line(s): <first classes>
# /repo itself is not touched, so this can run next to other checks.  Evidence goes to build/tmp/ev_mutant.
ID=$1; shift
cd ${VERIF_HOME:-/verif}
P=$PWD/seeded/$ID/patch.diff
WT=/tmp/mutant_wt_$$
git -C /repo worktree add -q --detach $WT HEAD || { echo "cannot create scratch worktree"; exit 2; }
trap 'git -C /repo worktree remove --force $WT >/dev/null 2>&1; git -C /repo worktree prune; find ${VERIF_HOME:-/verif}/build/scratch -mindepth 1 -maxdepth 1 -mmin +90 -exec rm -rf {} + 2>/dev/null' EXIT
git -C $WT apply $P || { echo "patch does not apply"; exit 2; }
mkdir -p build/tmp
for C in "$@"; do
  out=$(VERIF_REPO=$WT VERIF_EVIDENCE_DIR=build/tmp/ev_mutant VERIF_SEED=${VERIF_SEED:-1} checks/check.sh $C quick 2>&1); rc=$?
  echo "$ID $C exit=$rc $(echo "$out" | grep -c '^VIOLATION') violation line(s): $(echo "$out" | grep '^  class' | head -3 | cut -c1-160 | tr '\n' '|')"
  echo "$out" > build/tmp/mutant_${ID}_$C.out
done
