#!/bin/bash
# seed_sweep.sh <seed>... : every check's quick tier at other values of VERIF_SEED on the current tree (must all be "ok":
# a violation that appears only at another seed is either a finding or a false alarm of the machinery).
# Evidence goes to build/tmp/ev_sweep so that evidence/ keeps the default-seed run.
cd "$(dirname "$0")/.."
rc=0
for sd in "$@"; do
  for p in C01 C02 C03 C04 C05 C06 C07 C08 C09 C12 C13 C14 C16 C17 C18; do
    out=$(VERIF_SEED=$sd VERIF_EVIDENCE_DIR=build/tmp/ev_sweep checks/check.sh $p quick 2>&1); r=$?
    echo "seed $sd: $(echo "$out" | tail -1)"
    if [ $r -ne 0 ]; then rc=1; echo "$out" | grep -v '^KNOWN-FINDING' | tail -12 | cut -c1-400; fi
  done
done
exit $rc
