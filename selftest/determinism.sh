#!/bin/bash
# determinism.sh [count] : every seed of every profile is executed twice, in different worker processes,
# at worker counts 16 / 5 / 1 (plain), 16 / 3 (omp: the OpenMP build with the simulator's own team) and 8 / 3 (asan); the per-seed (H_sched, H_obs, H_shape, ending, violation classes)
# records must agree exactly.  ASLR is on.  Exit 0 if all agree.
cd "$(dirname "$0")/.."
N=${1:-2000}
rc=0
mkdir -p build/tmp
for FLAV in plain asan omp; do
  BD=$(sim/build.sh $FLAV 2>/dev/null | tail -1)
  if [ $FLAV = plain ]; then WS="16 5 1"; CNT=$N; elif [ $FLAV = omp ]; then WS="16 3"; CNT=$((N/2)); else WS="8 3"; CNT=$((N/5)); fi
  for P in ssv strf pipe term mem sing svx hist leak symleak sym carry forest tiny; do
    base=$((RANDOM * 8))
    i=0
    for W in $WS; do
      $BD/simfact batch --profile $P --base $base --count $CNT --workers $W --no-min --out build/tmp/det.json --dump-hashes build/tmp/det_$i.txt >/dev/null 2>&1
      sort -n build/tmp/det_$i.txt > build/tmp/det_$i.sorted
      i=$((i+1))
    done
    for k in $(seq 1 $((i-1))); do
      if ! cmp -s build/tmp/det_0.sorted build/tmp/det_$k.sorted; then
        echo "NONDETERMINISM flavour=$FLAV profile=$P base=$base (worker counts differ in result):"; diff build/tmp/det_0.sorted build/tmp/det_$k.sorted | head -5; rc=1
      fi
    done
    echo "$FLAV $P: $(wc -l < build/tmp/det_0.sorted) seeds x $i executions identical=$([ $rc = 0 ] && echo yes || echo NO)"
  done
done
# alloc profile (chunks of 128)
BD=$(sim/build.sh plain 2>/dev/null | tail -1)
for W in 16 3; do $BD/simfact batch --profile alloc --S 128 --base 0 --count 2560 --workers $W --no-min --out build/tmp/det.json --dump-hashes build/tmp/det_a$W.txt >/dev/null 2>&1; sort -n build/tmp/det_a$W.txt > build/tmp/det_a$W.sorted; done
cmp -s build/tmp/det_a16.sorted build/tmp/det_a3.sorted || { echo "NONDETERMINISM profile=alloc"; diff build/tmp/det_a16.sorted build/tmp/det_a3.sorted | head -5; rc=1; }
echo "plain alloc: $(wc -l < build/tmp/det_a16.sorted) seeds x 2 executions"
rm -f build/tmp/det*
exit $rc
