#!/bin/bash
# store_mutant.sh <id> <property> <worktree> <needs>: copy a confirmed seeded change into ${VERIF_HOME:-/verif}/seeded/<id>/
id=$1; prop=$2; wt=$3; needs="$4"
mkdir -p ${VERIF_HOME:-/verif}/seeded/$id
cp $wt/demo/patch.diff ${VERIF_HOME:-/verif}/seeded/$id/patch.diff 2>/dev/null || git -C $wt diff -- SRC > ${VERIF_HOME:-/verif}/seeded/$id/patch.diff
cp $wt/demo/demo.c $wt/demo/build_and_run.sh $wt/demo/verify.log ${VERIF_HOME:-/verif}/seeded/$id/ 2>/dev/null
cp $wt/demo/REPORT.md ${VERIF_HOME:-/verif}/seeded/$id/ 2>/dev/null || cp $wt/demo/REPORT.txt ${VERIF_HOME:-/verif}/seeded/$id/REPORT.md 2>/dev/null
python3 - "$id" "$prop" "$needs" <<'PY'
import json,sys
id,prop,needs=sys.argv[1:4]
json.dump({"id":id,"breaks_property":prop,"needs_to_manifest":needs,"origin":"independent sub-agent given only the property text and a scratch worktree",
 "confirmed_by":"selftest/verify_mutant.sh in the scratch worktree: builds, 48/48 pinned tests pass with the change, demo exits non-zero with it and 0 without it (see verify.log)",
 "checks_run":[]},open(__import__('os').environ.get('VERIF_HOME','/verif')+'/seeded/%s/meta.json'%id,'w'),indent=1)
PY
