#!/bin/bash
# verify_mutant.sh <worktree> : confirm a sub-agent's seeded change independently:
#   builds with the change, the pinned 48 tests pass, the demo fails with the change and passes without it.
WT=$1
cd $WT || exit 2
log=$WT/demo/verify.log; : > $log
build() { cmake -G Ninja -S . -B _build -DCMAKE_C_FLAGS=-Wno-error >/dev/null 2>&1 && cmake --build _build -j8 >/dev/null 2>&1; }
build || { echo "BUILD FAILED with change" | tee -a $log; exit 1; }
T=$(ctest --test-dir _build -j8 --timeout 900 2>&1 | grep "tests passed"); echo "tests with change: $T" | tee -a $log
echo "$T" | grep -q "100% tests passed, 0 tests failed out of 48" || { echo "TESTS FAIL with change" | tee -a $log; exit 1; }
( cd demo && timeout 900 bash ./build_and_run.sh >/tmp/demo_with.out 2>&1 ); W=$?; echo "demo with change: exit $W" | tee -a $log
git diff -- SRC > /tmp/verify_mutant_$$.diff; git apply -R /tmp/verify_mutant_$$.diff || exit 2
build; ( cd demo && timeout 900 bash ./build_and_run.sh >/tmp/demo_without.out 2>&1 ); O=$?; echo "demo without change: exit $O" | tee -a $log
git apply /tmp/verify_mutant_$$.diff; rm -f /tmp/verify_mutant_$$.diff
[ $W -ne 0 ] && [ $O -eq 0 ] && { echo "CONFIRMED" | tee -a $log; exit 0; }
echo "NOT CONFIRMED" | tee -a $log; exit 1
