#!/bin/bash
# Build the simulator for one flavour from /repo's *current working tree*.
# usage: build.sh <plain|asan|long|lasan|vblas|omp> ; prints the build directory on stdout.
set -e
FLAV=${1:-plain}
REPO=${VERIF_REPO:-/repo}
HERE=$(cd "$(dirname "$0")" && pwd)
ROOT=$(dirname "$HERE")
COMMON="-g -fno-omit-frame-pointer -DAdd_ -DSLU_MT_VERIF -w"
if [ "$FLAV" = omp ]; then COMMON="$COMMON -D__OPENMP"; else COMMON="$COMMON -D__PTHREAD"; fi
case $FLAV in
  plain) LIBF="-O1 $COMMON"; HF="-O2 $COMMON"; LDF="" ;;
  asan)  LIBF="-O1 $COMMON -fsanitize=address,alignment,null -fno-sanitize-recover=all"; HF="-O1 $COMMON -fsanitize=address"; LDF="-fsanitize=address,alignment,null" ;;
  lasan) LIBF="-O1 $COMMON -D_LONGINT -fsanitize=address,alignment,null -fno-sanitize-recover=all"; HF="-O1 $COMMON -D_LONGINT -fsanitize=address"; LDF="-fsanitize=address,alignment,null" ;;   # 64-bit indices under ASan
  long)  LIBF="-O1 $COMMON -D_LONGINT"; HF="-O2 $COMMON -D_LONGINT"; LDF="" ;;
  omp)   LIBF="-O1 $COMMON -fopenmp"; HF="-O2 $COMMON -DSIM_OMP"; LDF="" ;;   # libgomp is NOT linked: sim.cc provides the five GOMP entry points
  vblas) LIBF="-O1 $COMMON -DUSE_VENDOR_BLAS"; HF="-O2 $COMMON -DSIM_VBLAS"; LDF="" ;;
  *) echo "unknown flavour $FLAV" >&2; exit 2 ;;
esac
SRCS=$(cd $REPO && ls SRC/*.c CBLAS/*.c | grep -v 'SRC/sp_ienv.c' | grep -v 'CBLAS/.myblas2.c')
EXTRALIB=""
if [ $FLAV = vblas ]; then SRCS=$(cd $REPO && ls SRC/*.c | grep -v 'SRC/sp_ienv.c'); EXTRALIB="-lopenblas"; fi
HASH=$( (cd $REPO && cat $SRCS SRC/*.h CBLAS/*.h; cat $HERE/*.cc $HERE/*.hh $HERE/build.sh; echo "$FLAV $LIBF $HF") | sha256sum | cut -c1-16)
if [ "$REPO" != /repo ]; then
  # a scratch tree (selftests, background runs): its builds live apart and never displace the builds of /repo
  BD=$ROOT/build/scratch/$FLAV-$HASH
else
  BD=$ROOT/build/$FLAV-$HASH
fi
if [ -x $BD/simfact ]; then touch $BD; echo $BD; exit 0; fi
if [ "$REPO" = /repo ]; then
  # prune builds of this flavour that have not been used for two hours (another check may be running on a newer one right now)
  for d in $ROOT/build/$FLAV-*; do [ -d "$d" ] && [ "$d" != "$BD" ] && [ -n "$(find "$d" -maxdepth 0 -mmin +120)" ] && rm -rf "$d"; done
fi
# build in a private directory and move it into place, so that a concurrent build of the same sources cannot see a half-built tree
FINAL=$BD; BD=$FINAL.tmp.$$
mkdir -p $BD/lib $BD/h $ROOT/build/tmp
( cd $REPO && for f in $SRCS; do echo $f; done ) | xargs -P 16 -I{} sh -c "gcc -c $LIBF -I$REPO/SRC -I$REPO/CBLAS $REPO/{} -o $BD/lib/\$(echo {} | tr '/' '_' | sed 's/\.c\$/.o/')" >&2
rm -f $BD/libslu.a; ar rcs $BD/libslu.a $BD/lib/*.o
CXX="g++ -std=c++17 -fcx-limited-range $HF -I$REPO/SRC -I$HERE"
(
  for p in s d c z; do echo "$CXX -DPREC_$p -c $HERE/drv_impl.cc -o $BD/h/drv_$p.o"; done
  for f in sim oracle gen runner monitor minimise simfact ienv; do echo "$CXX -c $HERE/$f.cc -o $BD/h/$f.o"; done
) | xargs -P 16 -I{} sh -c "{}" >&2
WRAPS="-Wl,--wrap=pthread_create,--wrap=pthread_join,--wrap=pthread_exit,--wrap=pthread_mutex_init,--wrap=pthread_mutex_destroy,--wrap=pthread_mutex_lock,--wrap=pthread_mutex_unlock,--wrap=malloc,--wrap=calloc,--wrap=realloc,--wrap=free,--wrap=exit"
g++ $LDF -rdynamic -o $BD/simfact $BD/h/*.o $BD/libslu.a $EXTRALIB $WRAPS -lpthread -ldl -lm >&2
if [ -x $FINAL/simfact ]; then rm -rf $BD; else mkdir -p $(dirname $FINAL); mv $BD $FINAL 2>/dev/null || rm -rf $BD; fi
echo $FINAL
