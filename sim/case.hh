// A Case is a fully explicit, replayable description of one simulated execution:
// inputs, configuration, operation history, fault plan and schedule.
#pragma once
#include "drv.hh"
#include "sim.hh"
#include "json.hh"
#include <map>

enum OpKind { OP_GSSV = 0, OP_GSSVX = 1, OP_ROUTE = 2, OP_GSTRS = 3, OP_DESTROY = 4, OP_ROUTE_FINALIZE = 5, OP_KIND_COUNT };
static inline const char *opkind_name(int k) { static const char *n[] = {"gssv", "gssvx", "route", "gstrs", "destroy", "route_finalize"}; return k >= 0 && k < OP_KIND_COUNT ? n[k] : "?"; }

struct OpSpec {
    int kind = OP_GSSV;
    XOpts x;
    int values_id = 0;      // which value set of the pattern is current for this op
    int rhs_id = 0;
    bool do_solve = true;   // OP_ROUTE: follow the factorization with ?gstrs
    long ienv[9] = {0, 8, 4, 32, 16, 8, -50, -50, -30};
    bool dyn_snode = false;
    sim::SchedSpec sched;
    sim::FaultPlan faults;
    std::vector<uint16_t> forced;
    bool use_forced = false;
    long step_budget = 0;   // 0: computed by the runner
};

struct Case {
    std::string profile;
    uint64_t seed = 0;
    int prec = PREC_D;
    int stype_nr = 0;
    Mat M;                               // pattern (+ values[0] copied in)
    std::vector<std::vector<cld>> values; // value sets (same pattern)
    int nrhs = 1, ldb = 0;
    std::vector<std::vector<cld>> rhs;    // right-hand sides (ldb x nrhs, column major)
    int colperm = 0;                      // 0..3 library ordering, 4 = user_perm_c
    std::vector<int> user_perm_c;
    std::vector<int> transversal;         // hidden perfect matching of the pattern (row per column), -1 if none
    std::vector<OpSpec> ops;
    std::string family, valclass;
    // generator annotations used by oracles
    bool expect_singular = false;
    std::map<std::string, long> tags;
};

struct Viol { std::string prop, oracle, detail, sig; int op = -1; };

struct Outcome {
    int end = 0;                     // sim::EndKind of the last/abnormal op
    int end_op = -1;
    std::string end_detail, stderr_text;
    std::vector<Viol> viols;
    std::map<std::string, long> probes, excl, faults;
    uint64_t h_sched = 0, h_obs = 0, h_shape = 0;
    uint64_t h_out = 0;              // outputs only (info, permutations, factors, X, B, expert-driver scalars): no events
    long steps = 0, decisions = 0, switches = 0, events = 0;
    std::vector<std::vector<uint16_t>> decisions_log; // per op
    J sample;                        // short description of the case
    long alloc_requests = 0;         // allocator requests of the last op
    std::vector<long> stack_marks;   // caller-workspace usage marks of the last op
    std::vector<long> stack_peaks;   // per op: largest usage mark
    double mem_total_needed = 0;
};

// ---------------------------------------------------------------- (de)serialisation
static inline std::string hexld(ld v) { char b[64]; snprintf(b, sizeof b, "%La", v); return b; }
static inline ld parseld(const std::string &s) { return strtold(s.c_str(), nullptr); }

static inline J vals_to_j(const std::vector<cld> &v, bool cpx) {
    J a = J::arr();
    for (auto &c : v) { a.push(J(hexld(c.real()))); if (cpx) a.push(J(hexld(c.imag()))); }
    return a;
}
static inline std::vector<cld> vals_from_j(const J &a, bool cpx) {
    std::vector<cld> v;
    for (size_t i = 0; i < a.a.size(); i += cpx ? 2 : 1) v.push_back(cld(parseld(a.a[i].s), cpx ? parseld(a.a[i + 1].s) : 0));
    return v;
}
template <class T> static inline J ints_to_j(const std::vector<T> &v) { J a = J::arr(); for (auto x : v) a.push(J((long long)x)); return a; }
template <class T> static inline std::vector<T> ints_from_j(const J &a) { std::vector<T> v; for (auto &x : a.a) v.push_back((T)x.i); return v; }

// run-length encoded schedule: [task,count,task,count,...]
static inline J rle_to_j(const std::vector<uint16_t> &v) {
    J a = J::arr();
    for (size_t i = 0; i < v.size();) { size_t k = i; while (k < v.size() && v[k] == v[i]) ++k; a.push(J((long long)v[i])); a.push(J((long long)(k - i))); i = k; }
    return a;
}
static inline std::vector<uint16_t> rle_from_j(const J &a) {
    std::vector<uint16_t> v;
    for (size_t i = 0; i + 1 < a.a.size(); i += 2) for (long long k = 0; k < a.a[i + 1].i; ++k) v.push_back((uint16_t)a.a[i].i);
    return v;
}

static inline J op_to_j(const OpSpec &o) {
    J j = J::obj();
    j.set("kind", opkind_name(o.kind));
    j.set("nprocs", o.x.nprocs).set("fact", o.x.fact).set("trans", o.x.trans).set("refact", o.x.refact).set("usepr", o.x.usepr);
    j.set("panel_size", o.x.panel_size).set("relax", o.x.relax).set("u", J((double)o.x.u)).set("sym_mode", o.x.sym_mode);
    j.set("lwork", (long long)o.x.lwork).set("work_align", o.x.work_align);
    j.set("values_id", o.values_id).set("rhs_id", o.rhs_id).set("do_solve", o.do_solve);
    J e = J::arr(); for (int i = 0; i < 9; ++i) e.push(J((long long)o.ienv[i])); j.set("ienv", e);
    j.set("dyn_snode", o.dyn_snode);
    J s = J::obj();
    s.set("seed", J((long long)o.sched.seed)).set("strategy", o.sched.strategy).set("sticky_q", o.sched.sticky_q).set("pct_d", o.sched.pct_d)
     .set("pct_len", (long long)o.sched.pct_len).set("stall_kind", o.sched.stall_kind).set("stall_k", o.sched.stall_k).set("stall_nth", o.sched.stall_nth)
     .set("delay_start", o.sched.delay_start).set("yield_mask", J((long long)o.sched.yield_mask)).set("poll_wake_p", o.sched.poll_wake_p);
    j.set("sched", s);
    J f = J::obj();
    f.set("alloc_fail_from", (long long)o.faults.alloc_fail_from).set("alloc_fail_only", (long long)o.faults.alloc_fail_only).set("thread_create_fail", o.faults.thread_create_fail);
    j.set("faults", f);
    j.set("use_forced", o.use_forced);
    j.set("forced_rle", rle_to_j(o.forced));
    j.set("step_budget", (long long)o.step_budget);
    return j;
}
static inline OpSpec op_from_j(const J &j) {
    OpSpec o;
    std::string k = j.str("kind");
    for (int i = 0; i < OP_KIND_COUNT; ++i) if (k == opkind_name(i)) o.kind = i;
    o.x.nprocs = (int)j.num("nprocs", 1); o.x.fact = (int)j.num("fact"); o.x.trans = (int)j.num("trans"); o.x.refact = (int)j.num("refact");
    o.x.usepr = (int)j.num("usepr"); o.x.panel_size = (int)j.num("panel_size", 8); o.x.relax = (int)j.num("relax", 4); o.x.u = j.dbl("u", 1.0);
    o.x.sym_mode = (int)j.num("sym_mode"); o.x.lwork = (long)j.num("lwork"); o.x.work_align = (int)j.num("work_align");
    o.values_id = (int)j.num("values_id"); o.rhs_id = (int)j.num("rhs_id"); o.do_solve = j.num("do_solve", 1) != 0;
    if (const J *e = j.get("ienv")) for (int i = 0; i < 9 && i < (int)e->a.size(); ++i) o.ienv[i] = (long)e->a[i].i;
    o.dyn_snode = j.num("dyn_snode") != 0;
    if (const J *s = j.get("sched")) {
        o.sched.seed = (uint64_t)s->num("seed", 1); o.sched.strategy = (int)s->num("strategy"); o.sched.sticky_q = s->dbl("sticky_q", 0.9);
        o.sched.pct_d = (int)s->num("pct_d", 2); o.sched.pct_len = (long)s->num("pct_len", 2000); o.sched.stall_kind = (int)s->num("stall_kind");
        o.sched.stall_k = (int)s->num("stall_k", 30); o.sched.stall_nth = (int)s->num("stall_nth", 1); o.sched.delay_start = (int)s->num("delay_start");
        o.sched.yield_mask = (uint64_t)s->num("yield_mask", -1); o.sched.poll_wake_p = s->dbl("poll_wake_p", 1.0 / 16);
    }
    if (const J *f = j.get("faults")) {
        o.faults.alloc_fail_from = (long)f->num("alloc_fail_from", -1); o.faults.alloc_fail_only = (long)f->num("alloc_fail_only", -1);
        o.faults.thread_create_fail = (int)f->num("thread_create_fail", -1);
    }
    o.use_forced = j.num("use_forced") != 0;
    if (const J *r = j.get("forced_rle")) o.forced = rle_from_j(*r);
    o.step_budget = (long)j.num("step_budget");
    return o;
}

static inline J case_to_j(const Case &c) {
    J j = J::obj();
    bool cpx = prec_is_complex(c.prec);
    j.set("profile", c.profile).set("seed", J((long long)c.seed)).set("prec", prec_name(c.prec)).set("stype_nr", c.stype_nr);
    j.set("family", c.family).set("valclass", c.valclass);
    j.set("n", c.M.n).set("colptr", ints_to_j(c.M.colptr)).set("rowind", ints_to_j(c.M.rowind));
    J vs = J::arr(); for (auto &v : c.values) vs.push(vals_to_j(v, cpx)); j.set("values", vs);
    j.set("nrhs", c.nrhs).set("ldb", c.ldb);
    J rs = J::arr(); for (auto &v : c.rhs) rs.push(vals_to_j(v, cpx)); j.set("rhs", rs);
    j.set("colperm", c.colperm).set("user_perm_c", ints_to_j(c.user_perm_c)).set("transversal", ints_to_j(c.transversal));
    J ops = J::arr(); for (auto &o : c.ops) ops.push(op_to_j(o)); j.set("ops", ops);
    j.set("expect_singular", c.expect_singular);
    J tg = J::obj(); for (auto &kv : c.tags) tg.set(kv.first, J((long long)kv.second)); j.set("tags", tg);
    return j;
}
static inline bool case_from_j(const J &j, Case &c) {
    c = Case();
    c.profile = j.str("profile"); c.seed = (uint64_t)j.num("seed");
    std::string p = j.str("prec", "d");
    c.prec = p == "s" ? PREC_S : p == "d" ? PREC_D : p == "c" ? PREC_C : PREC_Z;
    bool cpx = prec_is_complex(c.prec);
    c.stype_nr = (int)j.num("stype_nr"); c.family = j.str("family"); c.valclass = j.str("valclass");
    c.M.n = (int)j.num("n");
    if (!j.get("colptr") || !j.get("rowind") || !j.get("values")) return false;
    c.M.colptr = ints_from_j<int>(*j.get("colptr")); c.M.rowind = ints_from_j<int>(*j.get("rowind"));
    for (auto &v : j.get("values")->a) c.values.push_back(vals_from_j(v, cpx));
    if (c.values.empty()) return false;
    c.M.val = c.values[0];
    c.nrhs = (int)j.num("nrhs"); c.ldb = (int)j.num("ldb");
    if (const J *r = j.get("rhs")) for (auto &v : r->a) c.rhs.push_back(vals_from_j(v, cpx));
    c.colperm = (int)j.num("colperm");
    if (const J *u = j.get("user_perm_c")) c.user_perm_c = ints_from_j<int>(*u);
    if (const J *u = j.get("transversal")) c.transversal = ints_from_j<int>(*u);
    if (const J *o = j.get("ops")) for (auto &x : o->a) c.ops.push_back(op_from_j(x));
    c.expect_singular = j.num("expect_singular") != 0;
    if (const J *t = j.get("tags")) for (auto &kv : t->o) c.tags[kv.first] = (long)kv.second.i;
    return true;
}
