#include "slu_mt_ddefs.h"
#include "monitor.hh"
#include "sim.hh"
#include <cstdarg>

namespace {
std::vector<Viol> pending;
std::map<std::string, long> probes;
int cur_op = -1;
pxgstrf_shared_t *shared = nullptr;
superlumt_options_t *options = nullptr;
long N = 0;

void on_event(int task, int kind, long pnum, long a, long b, long c, const void *ptr) {
    (void)task; (void)pnum; (void)b; (void)c;
    if (kind == SLU_EV_INIT) {
        shared = (pxgstrf_shared_t *)ptr;
        options = (superlumt_options_t *)c;
        N = a;
        sim::note_sched_lock(&shared->lu_locks[SCHED_LOCK]);
        sim::note_tasks_remain((const void *)&shared->tasks_remain, (int)sizeof(int_t));
    }
}
} // namespace

void monitor_install() { sim::event_cb = on_event; }
void monitor_begin_op(const Case &, const OpSpec &, int opi) { cur_op = opi; shared = nullptr; options = nullptr; }
void monitor_end_op(Outcome &, int, long) {}
void monitor_collect(std::vector<Viol> &into, int) { for (auto &v : pending) if (into.size() < 12) into.push_back(v); pending.clear(); }
void monitor_probes(std::map<std::string, long> &into) { for (auto &kv : probes) into[kv.first] += kv.second; probes.clear(); }
