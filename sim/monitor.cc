// Event monitors.  The shadow state is updated only from hook events; the library's own scheduler
// tables are read (never written) through the pointers announced by the INIT event.
#include "slu_mt_ddefs.h"
#include "monitor.hh"
#include "sim.hh"
#include <cstdarg>
#include <algorithm>
#include <unistd.h>

extern long g_ienv[9];

namespace {

std::vector<Viol> pending;
std::map<std::string, long> probes;
int cur_op = -1;

pxgstrf_shared_t *shared = nullptr;
superlumt_options_t *options = nullptr;
GlobalLU_t *Glu = nullptr;
long N = 0;
bool inited = false;
long first_zero_col = -1;   // smallest column with PIVOT_ZERO (0-based) in this op

enum CS { C_UNTAKEN = 0, C_TAKEN, C_PIVOTED, C_RELEASED };
std::vector<int> col_state, col_owner, pivots, releases;
std::vector<long> subtree;            // subtree size in the postordered etree
std::vector<int> handed;              // per panel leader: times handed out
std::vector<long> slot_end;           // per H-supernode leader: end of reserved lusup slot (-1 unknown)
std::vector<long> slot_start;
long panels_total = 0, handed_total = 0;
bool dynamic_mode = false;
long max_open_nsuper = -1;
std::vector<std::vector<std::pair<long, long>>> upd_ranges; // per target column
struct UpdRec { long jj, kf, kr, pstart; };
std::vector<UpdRec> upd_log;   // every per-column update, checked against the final supernode partition
long released_total = 0; bool extents_checked = false;
long thread_exits = 0;
bool mem_error_seen = false;

struct Interval { int type; long fsupc; long krep; }; // type 0 = UPD (values+first copy), 1 = DFS first copy, 2 = DFS second copy
struct TaskShadow { long min_zero_col = -1; long panel = -1, w = 0, bcol = -1; const int_t *lbusy = nullptr; std::vector<Interval> iv; bool in_prune = false; long prune_fsupc = -1; };
std::vector<TaskShadow> ts;
std::vector<long> stack_marks;
long elt_size = 8;
long init_events = 0;

std::string fmt(const char *f, ...) __attribute__((format(printf, 1, 2)));
std::string fmt(const char *f, ...) { char b[400]; va_list ap; va_start(ap, f); vsnprintf(b, sizeof b, f, ap); va_end(ap); return b; }

} // namespace
void (*monitor_layout_cb)(bool) = nullptr;
namespace {

void viol(const char *prop, const char *sig, const std::string &d) {
    for (auto &v : pending) if (v.prop == prop && v.sig == sig) return; // one per class per run
    Viol v; v.prop = prop; v.oracle = sig; v.sig = sig; v.detail = d; v.op = cur_op;
    pending.push_back(v);
}
[[noreturn]] void stop(const char *prop, const char *sig, const std::string &d) { sim::request_stop(std::string(prop) + "|" + sig + "|" + d); abort(); }

TaskShadow &T(int t) { if ((int)ts.size() <= t) ts.resize((size_t)t + 1); return ts[(size_t)t]; }

inline long fsupc_of(long col) { return Glu->xsup[Glu->supno[col]]; }
inline bool in_subtree(long node, long root) { return node <= root && node > root - subtree[root]; }

uint64_t sched_state_hash();
extern uint64_t sched_hash_last;
extern long bump_next[3];
extern std::vector<std::pair<long, long>> lsub_res;

// identity of the five factorization locks: entries of lu_locks[] in the pthread build, the name objects of the
// `#pragma omp critical (NAME)` sections in the OpenMP build
#ifdef SIM_OMP
} // namespace
extern "C" {
extern void *slu_omp_sched_lock __asm__(".gomp_critical_user_SCHED_LOCK");
extern void *slu_omp_nsuper_lock __asm__(".gomp_critical_user_NSUPER_LOCK");
extern void *slu_omp_llock __asm__(".gomp_critical_user_LLOCK");
extern void *slu_omp_ulock __asm__(".gomp_critical_user_ULOCK");
extern void *slu_omp_lulock __asm__(".gomp_critical_user_LULOCK");
}
namespace {
const void *lock_addr(int which) {
    switch (which) {
    case SCHED_LOCK: return &slu_omp_sched_lock;
    case NSUPER_LOCK: return &slu_omp_nsuper_lock;
    case LLOCK: return &slu_omp_llock;
    case ULOCK: return &slu_omp_ulock;
    default: return &slu_omp_lulock;
    }
}
#else
const void *lock_addr(int which) { return &shared->lu_locks[which]; }
#endif

void on_init(long n, const void *ptr, long c) {
    shared = (pxgstrf_shared_t *)ptr; options = (superlumt_options_t *)c; Glu = shared->Glu; N = n; inited = true;
    sim::note_sched_lock(lock_addr(SCHED_LOCK));
    sim::note_tasks_remain((const void *)&shared->tasks_remain, (int)sizeof(int_t));
    col_state.assign(n, C_UNTAKEN); col_owner.assign(n, -1); pivots.assign(n, 0); releases.assign(n, 0);
    handed.assign(n + 1, 0); upd_ranges.assign(n, {}); upd_log.clear(); released_total = 0; extents_checked = false;
    ts.clear();
    panels_total = shared->tasks_remain; handed_total = 0; max_open_nsuper = -1; thread_exits = 0; mem_error_seen = false;
    first_zero_col = -1; bump_next[0] = bump_next[1] = bump_next[2] = -1; lsub_res.assign((size_t)n, {-1, 0});
    // subtree sizes (etree is postordered: children before parents)
    subtree.assign(n + 1, 1);
    const int_t *et = options->etree;
    bool post_ok = true;
    for (long j = 0; j < n; ++j) { long p = et[j]; if (p <= j || p > n) { post_ok = false; break; } if (p < n) subtree[p] += subtree[j]; }
    if (!post_ok) viol("C10", "etree_not_postordered", "etree handed to the factorization is not a postordered forest");
    // reserved L-supernode slots
    dynamic_mode = Glu->dynamic_snode_bound != 0;
    slot_end.assign(n + 1, -1); slot_start.assign(n + 1, -1);
    const int_t *map = Glu->map_in_sup;
    if (!dynamic_mode) {
        long prev = -1;
        for (long j = 0; j < n; ++j) if (map[j] >= 0) { slot_start[j] = map[j]; if (prev >= 0) slot_end[prev] = map[j]; prev = j; }
        if (prev >= 0) slot_end[prev] = map[n];
    } else {
        long prev = -1;
        for (long j = 0; j < n; ++j)
            if (shared->pan_status[j].type == RELAXED_SNODE && shared->pan_status[j].size > 0) { slot_start[j] = map[j]; if (prev >= 0) slot_end[prev] = map[j]; prev = j; }
        if (prev >= 0) slot_end[prev] = Glu->nextlu;
    }
    if (sim::trace_fd >= 0) {
        std::string t = "INIT map_in_sup:"; for (long j = 0; j <= n; ++j) t += " " + std::to_string((long)map[j]);
        t += "\n     part_super_h:"; for (long j = 0; j < n; ++j) t += " " + std::to_string((long)options->part_super_h[j]);
        t += "\n     colcnt_h:"; for (long j = 0; j < n; ++j) t += " " + std::to_string((long)options->colcnt_h[j]);
        t += "\n     etree:"; for (long j = 0; j < n; ++j) t += " " + std::to_string((long)et[j]);
        t += "\n     panels:"; for (long j = 0; j < n; ++j) t += " " + std::to_string((long)shared->pan_status[j].size) + (shared->pan_status[j].type == RELAXED_SNODE ? "r" : "p");
        t += "\n"; if (write(sim::trace_fd, t.data(), t.size()) < 0) {}
    }
    if (monitor_layout_cb) {
        // replay the walk of ?PresetMap over the bounding partition: a relaxed supernode is only seen if the walk lands on its first column
        const int_t *sb = options->part_super_h; bool skipped = false;
        for (long j = 0; j < n;) {
            long w;
            if (shared->pan_status[j].type == RELAXED_SNODE && shared->pan_status[j].size > 0) {
                long last = j + shared->pan_status[j].size, i = j;
                while (i < last) { long s_ = sb[i]; if (s_ <= 0) { s_ = 1; } i += s_; }
                w = i - j;
            } else {
                w = sb[j] > 0 ? sb[j] : 1;
            }
            for (long k = j + 1; k < j + w && k < n; ++k) if (shared->pan_status[k].type == RELAXED_SNODE && shared->pan_status[k].size > 0) skipped = true;
            j += w;
        }
        monitor_layout_cb(skipped);
    }
    if (shared->num_splits > 0) probes["panel_split_at_top"]++;
    probes["factorizations_monitored"]++;
    sched_hash_last = sched_state_hash();
}

// everything SCHED_LOCK protects: unfinished-children counters, task queue, tasks_remain, farthest-busy table, and the
// panel states except the owner's BUSY -> DONE store (which is made outside the lock by design)
uint64_t sched_state_hash() {
    uint64_t h = 1469598103934665603ULL;
    auto mixin = [&](long v) { h = sim::mix(h, (uint64_t)v + 0x9e37); };
    for (long j = 0; j <= N; ++j) {
        mixin(shared->pan_status[j].ukids);
        int stt = (int)shared->pan_status[j].state; if (stt == DONE) stt = BUSY;
        mixin(stt);
        mixin(shared->fb_cols[j]);
    }
    queue_t *q = &shared->taskq;
    mixin(q->head); mixin(q->tail); mixin(q->count);
    for (long k = q->head; k < q->tail && k < N; ++k) mixin(q->queue[k]);
    mixin(shared->tasks_remain);
    return h;
}
uint64_t sched_hash_last = 0;

// a bump pointer hands out consecutive ranges: every request starts where the previous one ended.  A start value that was read
// outside the critical section (stale) shows as a gap or an overlap even when the update itself is inside the lock.
long bump_next[3] = {-1, -1, -1};
std::vector<std::pair<long, long>> lsub_res;   // per column: L-subscript reservation made for it (start, words)
void bump_check(int which, const char *what, long prev, long num) {
    if (bump_next[which] >= 0 && prev != bump_next[which])
        viol("C05", "bump_pointer_not_continuous", fmt("%s storage: request starts at %ld, the previous request ended at %ld (%s)", what, prev, bump_next[which], prev < bump_next[which] ? "ranges overlap" : "gap"));
    bump_next[which] = prev + num;
    probes["bump_pointer_requests_checked"]++;
}

void check_lock(int task, int which, const char *what) {
    if (!shared) return;
    if (sim::mutex_owner(lock_addr(which)) != task) viol("C03", "lock_discipline", fmt("%s outside its critical section", what));
}

void on_sched_cs(int task, long finished, long taken, long bcol) {
    check_lock(task, SCHED_LOCK, "scheduler update");
    queue_t *q = &shared->taskq;
    if (!(0 <= q->head && q->head <= q->tail && q->tail <= N)) viol("C04", "queue_bounds", fmt("head=%ld tail=%ld n=%ld", (long)q->head, (long)q->tail, N));
    if (q->count != q->tail - q->head) viol("C04", "queue_count", fmt("count=%ld head=%ld tail=%ld", (long)q->count, (long)q->head, (long)q->tail));
    TaskShadow &me = T(task);
    me.iv.clear();
    if (finished >= 0 && finished < N && col_owner[finished] != task) viol("C04", "finished_foreign_panel", fmt("task reports panel %ld it does not own", finished));
    if (taken >= 0 && taken < N) {
        ++handed_total;
        if (++handed[taken] != 1) viol("C04", "panel_handed_twice", fmt("panel %ld handed out %d times", taken, handed[taken]));
        long w = shared->pan_status[taken].size;
        if (w <= 0) { viol("C04", "panel_not_leader", fmt("column %ld handed out is not a panel leader (size %ld)", taken, w)); w = 1; }
        for (long j = taken; j < taken + w && j < N; ++j) {
            if (col_state[j] != C_UNTAKEN) viol("C04", "column_taken_twice", fmt("column %ld taken again", j));
            col_state[j] = C_TAKEN; col_owner[j] = task;
        }
        me.panel = taken; me.w = w; me.bcol = bcol; me.lbusy = nullptr;
        if (shared->pan_status[taken].state != BUSY) viol("C04", "taken_not_busy", fmt("panel %ld handed out but not marked BUSY", taken));
        // I4: hand-out rule.  A descendant panel counts as unfinished while at least one of its columns has not been
        // released (the owner's STATE = DONE store comes later, after post-release work that nobody depends on).
        long last = taken + w - 1;
        long lo = last - subtree[last] + 1;
        std::vector<long> Q;
        for (long p = lo; p < taken;) {
            long pw = shared->pan_status[p].size;
            if (pw <= 0) { ++p; continue; }
            bool unreleased = false;
            for (long k = p; k < p + pw; ++k) if (col_state[k] != C_RELEASED) unreleased = true;
            if (unreleased) Q.push_back(p);
            else if (shared->pan_status[p].state != DONE) probes["descendant_released_but_not_marked_done"]++;
            p += pw;
        }
        bool chain = true;
        for (size_t i = 0; i < Q.size(); ++i) {
            long p = Q[i];
            if (shared->pan_status[p].state != BUSY) { viol("C03", "handout_unfinished_descendant", fmt("panel %ld handed out while descendant panel %ld is neither finished nor busy (state %d)", taken, p, (int)shared->pan_status[p].state)); chain = false; }
            else if (col_owner[p] < 0 || !sim::task_live(col_owner[p])) { viol("C03", "handout_orphan_busy", fmt("busy descendant panel %ld has no live owner", p)); chain = false; }
            if (i > 0) { long pl = p + shared->pan_status[p].size - 1; if (!in_subtree(Q[i - 1], pl)) { viol("C03", "handout_not_a_chain", fmt("panel %ld handed out with two unfinished descendant branches (%ld and %ld)", taken, Q[i - 1], p)); chain = false; } }
        }
        if (bcol < lo || bcol > taken) viol("C03", "handout_bcol", fmt("panel %ld: farthest busy column %ld is not a descendant", taken, bcol));
        else if (chain && !Q.empty()) {
            // the reported farthest busy column must lie at or below the lowest unfinished panel, on the same path
            long pl = Q[0] + shared->pan_status[Q[0]].size - 1;
            if (!(bcol <= Q[0] && in_subtree(bcol, pl))) viol("C03", "handout_bcol", fmt("panel %ld: farthest busy column reported %ld, but panel %ld still has unreleased columns", taken, bcol, Q[0]));
        }
        if (!Q.empty()) { probes["canpipe_panel_taken"]++; if (Q.size() >= 2) probes["busy_chain_ge2_panels"]++; if (Q.size() >= 3) probes["busy_chain_ge3_panels"]++; }
    } else me.panel = -1;
    long tr = shared->tasks_remain;
    if (tr != panels_total - handed_total) viol("C04", "tasks_remain_mismatch", fmt("tasks_remain=%ld but %ld of %ld panels handed out", tr, handed_total, panels_total));
}

void on_event(int task, int kind, long pnum, long a, long b, long c, const void *ptr) {
    (void)pnum;
    if (kind == SLU_EV_INIT) { ++init_events; on_init(a, ptr, c); return; }
    if (kind == SLU_EV_STACK) {
        // user-workspace model: 0 <= top1 <= top2 <= size, used consistent
        const int_t *st = (const int_t *)ptr; long size = st[0], used = st[1], top1 = st[2], top2 = st[3];
        stack_marks.push_back(used);
        if (!(0 <= top1 && top1 <= top2 && top2 <= size)) viol("C14", "workspace_stack_pointers", fmt("after op %ld: top1=%ld top2=%ld size=%ld", a, top1, top2, size));
        if (used < 0 || used > size) viol("C14", "workspace_stack_used", fmt("after op %ld: used=%ld size=%ld", a, used, size));
        probes["stack_events"]++;
        if (inited && Glu && a == 1) {
            // a block granted from the caller workspace while a factorization is under way must not overlap the storage of the factors
            // (the arrays Glu points to).  [lo, hi) relative to the workspace: HEAD blocks end at top1, TAIL blocks start at top2.
            const char *base = *(const char *const *)((const char *)ptr + 4 * sizeof(int_t));
            long bytes = b, lo = c == 0 ? top1 - bytes : top2, hi = lo + bytes;
            struct { const char *nm; const void *p; long len; } arr[] = {
                {"lusup", Glu->lusup, (long)Glu->nzlumax * elt_size}, {"ucol", Glu->ucol, (long)Glu->nzumax * elt_size},
                {"lsub", Glu->lsub, (long)Glu->nzlmax * (long)sizeof(int_t)}, {"usub", Glu->usub, (long)Glu->nzumax * (long)sizeof(int_t)},
                {"xsup", Glu->xsup, (N + 1) * (long)sizeof(int_t)}, {"xsup_end", Glu->xsup_end, N * (long)sizeof(int_t)}, {"supno", Glu->supno, (N + 1) * (long)sizeof(int_t)},
                {"xlsub", Glu->xlsub, (N + 1) * (long)sizeof(int_t)}, {"xlsub_end", Glu->xlsub_end, N * (long)sizeof(int_t)},
                {"xlusup", Glu->xlusup, (N + 1) * (long)sizeof(int_t)}, {"xlusup_end", Glu->xlusup_end, N * (long)sizeof(int_t)},
                {"xusub", Glu->xusub, (N + 1) * (long)sizeof(int_t)}, {"xusub_end", Glu->xusub_end, N * (long)sizeof(int_t)}};
            for (auto &e : arr) {
                if (!e.p || !base) continue;
                long off = (long)((const char *)e.p - base);
                if (off < 0 || off >= size) continue;            // not in the caller workspace
                if (off < hi && lo < off + e.len) { viol("C14", "workspace_block_overlaps_factor_storage", fmt("%s block [%ld..%ld) of the caller workspace overlaps %s at [%ld..%ld) (used=%ld top1=%ld top2=%ld size=%ld)", c == 0 ? "HEAD" : "TAIL", lo, hi, e.nm, off, off + e.len, used, top1, top2, size)); break; }
            }
            probes["workspace_blocks_checked_against_factors"]++;
        }
        return;
    }
    if (kind == SLU_EV_SPIN) return;
    if (!inited) return;
    TaskShadow &me = T(task);
    switch (kind) {
    case SLU_EV_SCHED_ENTER:
        // nobody is inside the scheduler's critical section at this point (its only yield point is its last statement)
        if (sim::mutex_owner(lock_addr(SCHED_LOCK)) < 0 && sched_state_hash() != sched_hash_last)
            viol("C04", "scheduler_state_changed_outside_lock", fmt("unfinished-children counters / task queue / tasks_remain differ from their values at the end of the last critical section (task with panel %ld entering the scheduler)", a));
        break;
    case SLU_EV_SCHED_CS: on_sched_cs(task, a, b, c); sched_hash_last = sched_state_hash(); break;
    case SLU_EV_BUSY_SNAPSHOT: {
        me.lbusy = (const int_t *)ptr;
        long J = a, w = shared->pan_status[J].size, last = J + w - 1, lo = last - subtree[last] + 1;
        for (long k = lo; k < J; ++k)
            if (col_state[k] != C_RELEASED && me.lbusy[k] != J) { viol("C03", "snapshot_misses_busy_column", fmt("panel %ld: descendant column %ld not released and not in the busy snapshot", J, k)); break; }
        break;
    }
    case SLU_EV_WAIT: {
        long J = a, k = b;
        if (me.lbusy && me.lbusy[k] != J) viol("C03", "wait_outside_snapshot", fmt("panel %ld waits for column %ld that is not in its busy snapshot", J, k));
        if (col_state[k] == C_UNTAKEN) viol("C03", "wait_on_untaken", fmt("panel %ld waits for column %ld which nobody has taken", J, k));
        probes["pipeline_waits"]++;
        break;
    }
    case SLU_EV_UPD_BEGIN: {
        long fs = b, kr = c;
        for (long k = fs; k <= kr; ++k) if (col_state[k] != C_RELEASED) { viol("C03", "read_before_final", fmt("panel %ld reads supernode [%ld..%ld] but column %ld is not released", a, fs, kr, k)); break; }
        me.iv.push_back({0, fs, kr});
        long nsupc = kr - fs + 1, nsupr = Glu->xlsub_end[fs] - Glu->xlsub[fs];
        if (nsupc >= g_ienv[5] && nsupr - nsupc >= g_ienv[4]) probes["update_2d"]++; else probes["update_1d"]++;
        break;
    }
    case SLU_EV_UPD_END: {
        for (size_t i = me.iv.size(); i-- > 0;) if (me.iv[i].type == 0 && me.iv[i].fsupc == b) { me.iv.erase(me.iv.begin() + (long)i); break; }
        break;
    }
    case SLU_EV_UPD_STEP: {
        long jj = a, kf = b, kr = c;
        for (long k = kf; k <= kr; ++k) {
            bool own = col_owner[k] == task && k >= me.panel && k < me.panel + me.w && col_state[k] >= C_PIVOTED;
            if (col_state[k] != C_RELEASED && !own) { viol("C03", "read_before_final", fmt("column %ld updated from column %ld which is not released", jj, k)); break; }
        }
        if (jj >= 0 && jj < N) {
            for (auto &r : upd_ranges[jj]) if (!(kr < r.first || kf > r.second)) { viol("C03", "update_applied_twice", fmt("column %ld: source range [%ld..%ld] overlaps [%ld..%ld]", jj, kf, kr, r.first, r.second)); break; }
            upd_ranges[jj].push_back({kf, kr});
            upd_log.push_back({jj, kf, kr, me.panel});
        }
        break;
    }
    case SLU_EV_DFS_SNODE: {
        long kr = b; long fs = fsupc_of(kr);
        me.iv.push_back({c ? 2 : 1, fs, kr});
        for (int t = 0; t < (int)ts.size(); ++t) if (t != task && ts[t].in_prune && ts[t].prune_fsupc == fs && c) { viol("C03", "dfs_reads_copy_being_pruned", fmt("DFS of column %ld enters pruned copy of supernode %ld while it is being partitioned", a, fs)); }
        if (!c) for (int t = 0; t < (int)ts.size(); ++t) if (t != task && ts[t].in_prune && ts[t].prune_fsupc == fs) probes["dfs_first_copy_during_prune"]++;
        break;
    }
    case SLU_EV_DFS_LEAVE: {
        for (size_t i = me.iv.size(); i-- > 0;) if (me.iv[i].type != 0 && me.iv[i].krep == b) { me.iv.erase(me.iv.begin() + (long)i); break; }
        break;
    }
    case SLU_EV_NEW_SUPER: check_lock(task, NSUPER_LOCK, "supernode counter increment"); break;
    case SLU_EV_SUPER_OPEN: {
        if (b < max_open_nsuper) probes["numbering_ne_storage_order"]++;
        max_open_nsuper = std::max(max_open_nsuper, b);
        break;
    }
    case SLU_EV_SUPER_JOIN: {
        long fs = c;
        if (a == me.panel) probes["supernode_spans_two_panels"]++;
        for (int t = 0; t < (int)ts.size(); ++t) if (t != task) for (auto &iv : ts[t].iv)
            if (iv.type == 2 && iv.fsupc == fs) viol("C03", "write_under_reader", fmt("column %ld joins supernode %ld while task %d traverses its second subscript copy", a, fs, t));
        break;
    }
    case SLU_EV_ALLOC: {
        long mt = a, prev = b, num = c; long jcol = *(const int_t *)ptr;
        if (mt == LUSUP) {
            long lead = Glu->map_in_sup[jcol] < 0 ? jcol + Glu->map_in_sup[jcol] : jcol;
            long end = slot_end[lead];
            if (end >= 0 && prev + num > end) {
                // with one thread the prediction of pxgstrf_super_bnd_dfs is exact; with several threads it can be too small because descendants of later
                // columns of the H-supernode are still unfinished (listed finding D13, keyed by the thread count so that a one-thread overrun is reported)
                if (dynamic_mode && !(shared->pan_status[lead].type == RELAXED_SNODE))
                    stop("C05", options && options->nprocs >= 2 ? "dyn_slot_overrun@several_threads" : "dyn_slot_overrun", fmt("dynamic mode: column %ld needs lusup[%ld..%ld) but the slot predicted for H-supernode %ld ends at %ld", jcol, prev, prev + num, lead, end));
                stop("C05", "lusup_slot_overrun", fmt("column %ld needs lusup[%ld..%ld) but the slot reserved for H-supernode %ld ends at %ld", jcol, prev, prev + num, lead, end));
            }
            if (prev + num > Glu->nzlumax) stop("C05", "lusup_array_overrun", fmt("column %ld needs lusup up to %ld, array holds %ld", jcol, prev + num, (long)Glu->nzlumax));
            probes["lusup_allocs_checked"]++;
        } else if (mt == LSUB) {
            check_lock(task, LLOCK, "L-subscript bump pointer");
            bump_check(0, "L-subscript", prev, num);
            if (jcol >= 0 && jcol < N) { if ((long)lsub_res.size() < N) lsub_res.assign((size_t)N, {-1, 0}); lsub_res[(size_t)jcol] = {prev, num}; }
            if (prev + num > Glu->nzlmax) viol("C05", "lsub_overrun", fmt("lsub needs %ld, holds %ld", prev + num, (long)Glu->nzlmax));
        } else {
            check_lock(task, ULOCK, "U bump pointer");
            bump_check(1, "U", prev, num);
            if (prev + num > Glu->nzumax) viol("C05", "ucol_overrun", fmt("ucol needs %ld, holds %ld", prev + num, (long)Glu->nzumax));
        }
        break;
    }
    case SLU_EV_ALLOC_DYN: {
        check_lock(task, LULOCK, "dynamic L-supernode bump pointer");
        long jcol = a, prev = b, num = c;
        bump_check(2, "dynamic L-supernode", prev, num);
        slot_start[jcol] = prev; slot_end[jcol] = prev + num;
        if (prev + num > Glu->nzlumax) viol("C05", "dyn_estimate_exceeds_array", fmt("H-supernode %ld: slot [%ld..%ld) beyond nzlumax %ld", jcol, prev, prev + num, (long)Glu->nzlumax));
        probes["dyn_slots"]++;
        break;
    }
    case SLU_EV_PIVOT: {
        long j = a;
        // I9: the first column of a supernode reserved room for both copies of the supernode's row list (the list itself and the copy that
        // pruning permutes), and the list starts at the reserved position
        if (c == 0 && j < (long)lsub_res.size() && lsub_res[(size_t)j].first >= 0) {
            long len = (long)Glu->xlsub_end[j] - (long)Glu->xlsub[j];
            if ((long)Glu->xlsub[j] != lsub_res[(size_t)j].first || 2 * len > lsub_res[(size_t)j].second)
                viol("C05", "lsub_reservation_too_small", fmt("supernode starting at column %ld: row list of %ld entries at lsub[%ld], reserved %ld words at %ld (both copies need %ld)", j, len, (long)Glu->xlsub[j], lsub_res[(size_t)j].second, lsub_res[(size_t)j].first, 2 * len));
            probes["lsub_reservations_checked"]++;
        }
        // I8 (see SNODE_RELEASE): columns of the caller's own panel that are taken or pivoted but not yet released still carry their flag
        if (me.panel >= 0) for (long k = me.panel; k < me.panel + me.w && k < N; ++k)
            if (col_state[k] != C_RELEASED && col_owner[k] == task && shared->spin_locks[k] == 0) { viol("C03", "busy_flag_cleared_before_release", fmt("column %ld of panel %ld is not released but its flag is down (seen when column %ld is pivoted)", k, me.panel, j)); break; }
        probes["busy_flag_checks"]++;
        if (++pivots[j] != 1) viol("C04", "column_pivoted_twice", fmt("column %ld pivoted %d times", j, pivots[j]));
        if (col_owner[j] != task) viol("C04", "pivot_by_non_owner", fmt("column %ld pivoted by a task that does not own it", j));
        if (b == 0) stop("C06", "pivot_empty_candidate_set", fmt("column %ld has no candidate row at all (nsupr == nsupc == %ld): the pivot search would read past the supernode's row list", j, c));
        break;
    }
    case SLU_EV_PIVOT_ZERO: {
        if (first_zero_col < 0 || a < first_zero_col) first_zero_col = a;
        if (me.min_zero_col < 0 || a < me.min_zero_col) me.min_zero_col = a;
        probes["zero_pivot_columns"]++;
        col_state[a] = C_PIVOTED;
        break;
    }
    case SLU_EV_ROWSWAP: {
        long fs = b;
        for (int t = 0; t < (int)ts.size(); ++t) if (t != task) for (auto &iv : ts[t].iv)
            if ((iv.type == 0 || iv.type == 1) && iv.fsupc == fs) viol("C03", "write_under_reader", fmt("row interchange in supernode %ld (column %ld) while task %d reads it", fs, a, t));
        probes["row_interchanges"]++;
        break;
    }
    case SLU_EV_PIVOT_DONE: col_state[a] = C_PIVOTED; break;
    case SLU_EV_COL_RELEASE:
        if (shared->spin_locks[a] == 0) viol("C03", "busy_flag_cleared_before_release", fmt("the flag of column %ld is already down when its release step starts", a));
        if (col_state[a] != C_PIVOTED) viol("C03", "release_before_pivot", fmt("column %ld released in state %d", a, col_state[a]));
        break;
    case SLU_EV_COL_RELEASED:
        if (shared->spin_locks[a] != 0) viol("C03", "release_flag_not_cleared", fmt("column %ld: flag still set after release", a));
        col_state[a] = C_RELEASED; ++releases[a]; ++released_total;
        break;
    case SLU_EV_SNODE_RELEASE:
        for (long j = a; j < a + b && j < N; ++j) {
            // I8: the busy flag of a column goes down in the release step and nowhere else - everything the owner still writes for the column
            // (second subscript copy, xlsub/xprune of a relaxed supernode) comes before that step, and a waiter proceeds the moment the flag drops
            if (shared->spin_locks[j] == 0) viol("C03", "busy_flag_cleared_before_release", fmt("relaxed supernode %ld: the flag of column %ld is already down when the release step starts", a, j));
            if (col_state[j] != C_PIVOTED) viol("C03", "release_before_pivot", fmt("relaxed supernode %ld: column %ld released in state %d", a, j, col_state[j]));
            col_state[j] = C_RELEASED; ++releases[j]; ++released_total;
        }
        break;
    case SLU_EV_PRUNE_BEGIN: {
        long fs = fsupc_of(b);
        for (int t = 0; t < (int)ts.size(); ++t) if (t != task && ts[t].in_prune && ts[t].prune_fsupc == fs) probes["concurrent_prune_same_supernode"]++;
        me.in_prune = true; me.prune_fsupc = fs;
        for (int t = 0; t < (int)ts.size(); ++t) if (t != task) for (auto &iv : ts[t].iv)
            if (iv.type == 2 && iv.fsupc == fs) viol("C03", "write_under_reader", fmt("pruning supernode %ld (by column %ld) while task %d traverses its pruned copy", fs, a, t));
        break;
    }
    case SLU_EV_PRUNE_STEP:
    case SLU_EV_PRUNE_MID: {
        // the partition may only permute the pruning copy of the supernode's subscripts: for a one-column supernode that is the
        // duplicate stored after the column's own list, otherwise the list of the last column; the first copy is what other
        // threads read (unprotected) while they gather and scatter numerical values
        long irep = b, s_ = Glu->supno[irep];
        bool single = Glu->xsup_end[s_] - Glu->xsup[s_] == 1;
        long lo = single ? Glu->xlsub_end[irep] : Glu->xlsub[irep];
        long pos = kind == SLU_EV_PRUNE_STEP ? c : (long)((int_t *)shared->xprune)[irep];
        if (pos < lo) viol("C03", "prune_touches_first_subscript_copy", fmt("column %ld prunes supernode ending at %ld at subscript position %ld, before the pruning copy starts (%ld)", a, irep, pos, lo));
        if (kind == SLU_EV_PRUNE_MID) { me.in_prune = false; me.prune_fsupc = -1; } // partition complete; the flag store follows
        break;
    }
    case SLU_EV_PRUNE_END: break;
    case SLU_EV_PANEL_DONE: {
        long J = a, w = shared->pan_status[J].size;
        for (long j = J; j < J + w && j < N; ++j) if (col_state[j] != C_RELEASED) { viol("C04", "panel_done_with_unreleased_column", fmt("panel %ld marked done, column %ld not released", J, j)); break; }
        break;
    }
    case SLU_EV_THREAD_EXIT:
        ++thread_exits;
        // every thread reports the smallest zero-pivot column it met itself (the minimum over threads is the driver's info); a = that value, 1-based, 0 = none
        if (a >= 0 && a <= N && !mem_error_seen && a != me.min_zero_col + 1)
            viol("C06", "thread_reports_not_its_first_zero_column", fmt("thread met its first all-zero candidate set at column %ld (0-based) but reports %ld", me.min_zero_col, a));
        if (released_total == N && !extents_checked && !mem_error_seen) {
            // C03 "applied exactly once": an update from supernode s to column jj must use s up to its last column, unless s
            // continues into jj's own panel (then the rest is applied by the panel-internal update) -- judged on the final partition
            extents_checked = true;
            const int_t *supno = Glu->supno, *xsup = Glu->xsup, *xse = Glu->xsup_end;
            for (auto &u : upd_log) {
                long s_ = supno[u.kr];
                if (supno[u.kf] != s_ || u.kf < xsup[s_]) { viol("C03", "update_range_spans_supernodes", fmt("column %ld updated from [%ld..%ld], not inside one supernode", u.jj, u.kf, u.kr)); break; }
                long rep = xse[s_] - 1;
                if (u.kr == rep || u.kr == u.jj - 1 || u.kr + 1 == u.pstart) continue;
                viol("C03", "update_uses_partial_supernode", fmt("column %ld (panel %ld) updated from [%ld..%ld] but the supernode is [%ld..%ld]", u.jj, u.pstart, u.kf, u.kr, (long)xsup[s_], rep));
                break;
            }
            probes["update_extents_checked"] += (long)upd_log.size();
        }
        if (shared->tasks_remain > 0) viol("C04", "worker_exit_with_tasks_remaining", fmt("worker left its loop with tasks_remain=%ld", (long)shared->tasks_remain));
        break;
    default: break;
    }
}

} // namespace

long monitor_first_zero_col() { return first_zero_col; }
const std::vector<long> &monitor_stack_marks() { return stack_marks; }
long monitor_init_events() { return init_events; }

void monitor_install() { sim::event_cb = on_event; }
void monitor_begin_op(const Case &c, const OpSpec &, int opi) { elt_size = (c.prec == PREC_S) ? 4 : (c.prec == PREC_D || c.prec == PREC_C) ? 8 : 16; stack_marks.clear(); init_events = 0; cur_op = opi; shared = nullptr; options = nullptr; Glu = nullptr; inited = false; first_zero_col = -1; }

void monitor_end_op(Outcome &out, int opi, long info) {
    (void)out; (void)opi;
    if (!inited) return;
    bool completed = info >= 0 && info <= N; // factorization ran to the end (singular or not)
    if (completed) {
        if (handed_total != panels_total) viol("C04", "panels_not_all_taken", fmt("%ld of %ld panels handed out", handed_total, panels_total));
        for (long j = 0; j < N; ++j) {
            if (pivots[j] != 1) { viol("C04", "column_not_pivoted_once", fmt("column %ld pivoted %d times", j, pivots[j])); break; }
            if (releases[j] != 1) { viol("C04", "column_not_released_once", fmt("column %ld released %d times", j, releases[j])); break; }
        }
    }
    inited = false; shared = nullptr; Glu = nullptr; options = nullptr;
}
void monitor_collect(std::vector<Viol> &into, int) { for (auto &v : pending) if (into.size() < 12) into.push_back(v); pending.clear(); }
void monitor_probes(std::map<std::string, long> &into) { for (auto &kv : probes) into[kv.first] += kv.second; probes.clear(); }
