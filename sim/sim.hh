// Deterministic scheduler / fault simulator for SuperLU_MT (engine A core).
// One run = one exactly repeatable execution: every scheduling decision and
// every injected fault is derived from RunConfig (which in turn is derived
// from one integer seed by the caller).
#pragma once
#include <cstdint>
#include <cstddef>
#include <string>
#include <vector>
#include <functional>

namespace sim {

// ---------------------------------------------------------------- PRNG
static inline uint64_t splitmix64(uint64_t &x) {
    uint64_t z = (x += 0x9e3779b97f4a7c15ULL);
    z = (z ^ (z >> 30)) * 0xbf58476d1ce4e5b9ULL;
    z = (z ^ (z >> 27)) * 0x94d049bb133111ebULL;
    return z ^ (z >> 31);
}
struct Rng {
    uint64_t s[4];
    explicit Rng(uint64_t seed = 1) { reseed(seed); }
    void reseed(uint64_t seed) { for (auto &v : s) v = splitmix64(seed); }
    static inline uint64_t rotl(uint64_t x, int k) { return (x << k) | (x >> (64 - k)); }
    uint64_t next() {
        uint64_t r = rotl(s[1] * 5, 7) * 9, t = s[1] << 17;
        s[2] ^= s[0]; s[3] ^= s[1]; s[1] ^= s[2]; s[0] ^= s[3]; s[2] ^= t; s[3] = rotl(s[3], 45);
        return r;
    }
    // uniform in [0,n)
    uint64_t below(uint64_t n) { return n ? next() % n : 0; }
    long range(long lo, long hi) { return lo + (long)below((uint64_t)(hi - lo + 1)); } // inclusive
    double unit() { return (next() >> 11) * (1.0 / 9007199254740992.0); }
    bool chance(double p) { return unit() < p; }
    template <class T> const T &pick(const std::vector<T> &v) { return v[below(v.size())]; }
};
static inline uint64_t derive(uint64_t seed, uint64_t stream) {
    uint64_t x = seed * 0x9e3779b97f4a7c15ULL + stream * 0xda942042e4dd58b5ULL + 0x1234567;
    return splitmix64(x);
}
static inline uint64_t mix(uint64_t h, uint64_t v) {
    h ^= v + 0x9e3779b97f4a7c15ULL + (h << 6) + (h >> 2);
    h *= 0xff51afd7ed558ccdULL; h ^= h >> 33;
    return h;
}

// ---------------------------------------------------------------- config
enum Strategy { ST_UNIFORM = 0, ST_STICKY, ST_PCT, ST_STALL, ST_SERIAL, ST_COUNT };

struct SchedSpec {
    uint64_t seed = 1;
    int strategy = ST_UNIFORM;
    double sticky_q = 0.9;        // ST_STICKY
    int pct_d = 2;                // ST_PCT: number of priority change points
    long pct_len = 2000;          //         estimated decisions
    int stall_kind = 0;           // ST_STALL: event kind after which the victim is frozen
    int stall_k = 30;             //           for this many decisions
    int stall_nth = 1;            //           on the nth occurrence of the event
    int delay_start = 0;          // new tasks are not admitted before this many decisions (x task index)
    uint64_t yield_mask = ~0ULL;  // event kinds that are preemption points (bit = kind)
    double poll_wake_p = 1.0 / 16;
};

struct FaultPlan {
    long alloc_fail_from = -1;    // fail request #k (1-based, within the armed library call) and all later
    long alloc_fail_only = -1;    // fail only request #k
    int thread_create_fail = -1;  // pthread_create #i (0-based) returns EAGAIN
};

struct RunConfig {
    SchedSpec sched;
    FaultPlan faults;
    std::vector<uint16_t> forced;   // replay: forced decisions (only decisions with >=2 enabled tasks are counted)
    bool use_forced = false;
    long step_budget = 50000000;
    uint8_t fill = 0xCB;
    int omp_team = 0;               // OpenMP flavour: size of the simulated team of the parallel region (0 = 1)
};

enum EndKind { END_NORMAL = 0, END_DEADLOCK, END_LIVELOCK, END_STEP_BUDGET, END_ABORT, END_MONITOR_STOP };

struct RunStats {
    long decisions = 0;        // decisions with >= 2 candidates
    long switches = 0;
    long yields = 0;           // all yield points passed
    long steps = 0;            // productive steps
    long tasks_created = 0, tasks_joined = 0, tasks_finished = 0;
    long spin_blocks = 0, mutex_blocks = 0, idle_polls = 0;
    long allocs = 0, alloc_faults_fired = 0, create_faults_fired = 0;
    long events = 0;
    uint64_t h_sched = 0, h_obs = 0, h_shape = 0;
    std::vector<uint16_t> decisions_log;
};

// ---------------------------------------------------------------- run control (harness side)
void install();                          // once per process
void begin_run(const RunConfig &cfg);    // caller becomes task 0
void end_run(RunStats &out);             // all created tasks must be finished; deactivates
void peek_stats(RunStats &out);          // counters of the run in progress (used when a run ends abnormally)
bool active();
void obs(uint64_t v);                    // fold a value into H_obs
void shape(uint64_t v);                  // fold a value into H_shape

// allocator accounting / faults apply only while armed (inside a library call)
void arm_alloc(bool on);
long alloc_count();                      // requests seen since last reset
void reset_alloc_count();
struct LiveBlock { void *p; size_t size; long seq; const void *site; };
void live_blocks(std::vector<LiveBlock> &out);   // sorted by seq
size_t live_bytes();
void forget_live_blocks();               // drop accounting table (between runs)
std::string site_name(const void *site_pc);

// abnormal ending: print a result line on the result fd and _exit.
// `on_die` (if set) is called to produce the line.
extern std::function<std::string(int endkind, const std::string &detail)> on_die;
[[noreturn]] void die(int endkind, const std::string &detail);
void flush_coverage();                   // writes gcov counters in coverage builds, no-op otherwise
extern int result_fd;
extern int stderr_capture_fd;            // regular file opened O_APPEND, or -1
std::string read_captured_stderr();
void reset_captured_stderr();

// ---------------------------------------------------------------- monitor interface
// Called for every hook event (after logging, before the yield decision).
typedef void (*event_cb_t)(int task, int kind, long pnum, long a, long b, long c, const void *ptr);
extern event_cb_t event_cb;
extern int trace_fd;                     // >= 0: every hook event is printed there
int current_task();
int mutex_owner(const void *addr);       // -1 free / unknown
int task_count();
bool task_live(int t);
long task_pnum(int t);
void note_sched_lock(const void *addr);  // lets the sim recognise the scheduler lock
void note_tasks_remain(const void *p, int width); // shared->tasks_remain (a failed poll is a stutter only while it is > 0)
void request_stop(const std::string &why); // monitor asks to end the run at once (process dies with END_MONITOR_STOP)

} // namespace sim
