#include "minimise.hh"
#include <fstream>
#include <algorithm>
#include <unistd.h>

namespace {

bool has_class(const J &r, const std::string &prop, const std::string &sig) {
    if (const J *v = r.get("viol")) for (auto &x : v->a) if (x.str("p") == prop && x.str("sig") == sig) return true;
    return false;
}
std::string class_detail(const J &r, const std::string &prop, const std::string &sig) {
    if (const J *v = r.get("viol")) for (auto &x : v->a) if (x.str("p") == prop && x.str("sig") == sig) return x.str("d");
    return "";
}
void adopt_schedule(Case &c, const J &r) {
    const J *s = r.get("sched_rle");
    if (!s) return;
    for (size_t i = 0; i < c.ops.size(); ++i) {
        if (i < s->a.size()) c.ops[i].forced = rle_from_j(s->a[i]); else c.ops[i].forced.clear();
        c.ops[i].use_forced = true;
    }
}

// remove the index set `rm` (sorted) from rows and columns
Case remove_indices(const Case &c, const std::vector<int> &rm) {
    Case d = c;
    int n = c.M.n;
    std::vector<int> newid(n, -1); std::vector<char> gone(n, 0);
    for (int k : rm) gone[k] = 1;
    int m = 0; for (int i = 0; i < n; ++i) if (!gone[i]) newid[i] = m++;
    d.M = Mat(); d.M.n = m; d.M.colptr.assign(1, 0);
    std::vector<std::vector<cld>> nv(c.values.size());
    for (int j = 0; j < n; ++j) {
        if (gone[j]) continue;
        for (int k = c.M.colptr[j]; k < c.M.colptr[j + 1]; ++k) {
            int i = c.M.rowind[k];
            if (gone[i]) continue;
            d.M.rowind.push_back(newid[i]);
            for (size_t v = 0; v < c.values.size(); ++v) nv[v].push_back(c.values[v][k]);
        }
        d.M.colptr.push_back((int)d.M.rowind.size());
    }
    d.values = nv; d.M.val = nv.empty() ? std::vector<cld>() : nv[0];
    d.ldb = std::max(1, m + (c.ldb - n));
    d.rhs.clear();
    for (auto &b : c.rhs) {
        std::vector<cld> nb((size_t)d.ldb * c.nrhs, cld(0, 0));
        for (int col = 0; col < c.nrhs; ++col) for (int i = 0; i < n; ++i) if (!gone[i]) nb[(size_t)col * d.ldb + newid[i]] = b[(size_t)col * c.ldb + i];
        d.rhs.push_back(nb);
    }
    if ((int)c.user_perm_c.size() == n) {
        // keep relative order
        std::vector<std::pair<int, int>> ord;
        for (int i = 0; i < n; ++i) if (!gone[i]) ord.push_back({c.user_perm_c[i], newid[i]});
        std::sort(ord.begin(), ord.end());
        d.user_perm_c.assign(m, 0);
        for (int r = 0; r < m; ++r) d.user_perm_c[ord[r].second] = r;
    }
    d.transversal.clear();
    return d;
}

// a history is well-formed if every op that reuses factors or symbolic data is preceded by a first-time factorization
bool well_formed(const Case &c) {
    bool have = false; bool route = false;
    for (auto &o : c.ops) {
        bool first = (o.kind == OP_GSSV) || (o.kind == OP_GSSVX && o.x.fact != 2 && !o.x.refact) || (o.kind == OP_ROUTE && !o.x.refact);
        if (o.kind == OP_GSSVX && o.x.lwork == -1) continue;
        if (first) { if (have && o.kind != OP_GSSV) return false; have = true; if (o.kind == OP_ROUTE) route = true; continue; }
        if (o.kind == OP_ROUTE_FINALIZE) { if (have) return false; route = false; continue; }
        if (!have) return false;
        if (o.kind == OP_DESTROY) have = false;
        (void)route;
    }
    // the enumerating profile's tags (which call is the query / carries the fault) refer to the last call of a two-call configuration
    if (c.profile == "alloc" && c.tags.count("alloc_two_call") && c.ops.size() != 2) return false;
    // leak accounting needs histories that give everything back at the end
    if ((c.profile == "leak" || c.profile == "symleak" || c.profile == "carry") && (have || route)) return false;
    return true;
}

} // namespace

MinResult minimise_and_write(Case c, const std::string &prop, const std::string &sig, const std::string &replay_dir,
                             const std::string &errdir, double timeout_s, long max_runs, const std::string &flavour) {
    MinResult mr;
    auto run = [&](const Case &k) { ++mr.runs; return run_forked(k, timeout_s, errdir, 0); };
    // 1. reproduce from the seed in a fresh process, adopt its schedule
    J r0 = run(c);
    if (!has_class(r0, prop, sig)) { mr.summary = "seed did not reproduce the class in a fresh process"; return mr; }
    adopt_schedule(c, r0);
    std::string ho0 = r0.str("ho");
    J r1 = run(c);
    if (!has_class(r1, prop, sig)) { mr.summary = "forced-schedule replay lost the violation"; return mr; }
    bool crashy = r0.str("end") == "sanitizer" || r0.str("end") == "signal" || r0.str("end") == "wall_timeout";
    if (!crashy && r1.str("ho") != ho0) { mr.summary = "forced-schedule replay changed H_obs (" + ho0 + " vs " + r1.str("ho") + ")"; return mr; }
    Case best = c; J rbest = r1;
    auto attempt = [&](const Case &cand) -> bool {
        if (mr.runs >= max_runs) return false;
        J r = run(cand);
        if (!has_class(r, prop, sig)) return false;
        best = cand; adopt_schedule(best, r); rbest = r;
        return true;
    };
    int n0 = c.M.n, p0 = c.ops.empty() ? 0 : c.ops.back().x.nprocs; size_t ops0 = c.ops.size();
    // 2. drop operations (histories)
    for (size_t win : {(size_t)1, (size_t)2, (size_t)3, (size_t)1}) {
        for (size_t i = best.ops.size(); i-- > 0 && best.ops.size() > win;) {
            if (i + win > best.ops.size()) continue;
            Case cand = best; cand.ops.erase(cand.ops.begin() + (long)i, cand.ops.begin() + (long)(i + win));
            if (!cand.ops.empty() && well_formed(cand)) attempt(cand);
        }
    }
    // 3. drop faults
    for (size_t i = 0; i < best.ops.size(); ++i) {
        OpSpec &o = best.ops[i];
        if (o.faults.alloc_fail_from > 0 || o.faults.alloc_fail_only > 0 || o.faults.thread_create_fail >= 0) {
            Case cand = best; cand.ops[i].faults = sim::FaultPlan(); attempt(cand);
        }
    }
    // 4. fewer threads
    for (size_t i = 0; i < best.ops.size(); ++i) {
        for (int target : {1, 2, 3}) {
            if (best.ops[i].x.nprocs <= target) break;
            Case cand = best; cand.ops[i].x.nprocs = target;
            if (attempt(cand)) break;
        }
        while (best.ops[i].x.nprocs > 2 && mr.runs < max_runs) { Case cand = best; cand.ops[i].x.nprocs--; if (!attempt(cand)) break; }
    }
    // 5. delete rows+columns: chunks (ddmin style), then singles
    for (int chunk = std::max(1, best.M.n / 2); chunk >= 1 && mr.runs < max_runs; chunk /= 2) {
        bool progress = true;
        while (progress && best.M.n > 1 && mr.runs < max_runs) {
            progress = false;
            for (int s = 0; s < best.M.n && best.M.n > 1 && mr.runs < max_runs; s += chunk) {
                std::vector<int> rm; for (int k = s; k < std::min(best.M.n, s + chunk); ++k) rm.push_back(k);
                if ((int)rm.size() >= best.M.n) continue;
                Case cand = remove_indices(best, rm);
                if (attempt(cand)) { progress = true; s -= chunk; }
            }
        }
        if (chunk == 1) break;
    }
    // 6. single entries
    for (int pass = 0; pass < 1 && mr.runs < max_runs; ++pass) {
        for (int k = (int)best.M.rowind.size() - 1; k >= 0 && mr.runs < max_runs; --k) {
            Case cand = best;
            int col = 0; while (cand.M.colptr[col + 1] <= k) ++col;
            if ((cand.profile == "sym" || cand.profile == "symleak") && cand.M.rowind[k] == col) continue;   // the profile's precondition: full diagonal
            cand.M.rowind.erase(cand.M.rowind.begin() + k);
            for (auto &v : cand.values) v.erase(v.begin() + k);
            for (int j = col + 1; j <= cand.M.n; ++j) cand.M.colptr[j]--;
            cand.M.val = cand.values[0];
            attempt(cand);
        }
    }
    // 7. defaults for tunables, one right-hand side
    for (size_t i = 0; i < best.ops.size() && mr.runs < max_runs; ++i) {
        Case cand = best; OpSpec &o = cand.ops[i];
        long def[9] = {0, 8, 4, 32, 16, 8, -50, -50, -30};
        bool diff = false; for (int k = 1; k < 9; ++k) if (o.ienv[k] != def[k]) diff = true;
        if (diff) { for (int k = 1; k < 9; ++k) o.ienv[k] = def[k]; o.x.panel_size = 8; o.x.relax = 4; attempt(cand); }
        if (best.ops[i].dyn_snode) { Case c2 = best; c2.ops[i].dyn_snode = false; attempt(c2); }
    }
    // 8. schedule: remove context switches (ddmin over switch positions)
    for (size_t i = 0; i < best.ops.size() && mr.runs < max_runs; ++i) {
        for (int round = 0; round < 6 && mr.runs < max_runs; ++round) {
            std::vector<uint16_t> f = best.ops[i].forced;
            std::vector<size_t> sw; for (size_t k = 1; k < f.size(); ++k) if (f[k] != f[k - 1]) sw.push_back(k);
            if (sw.size() <= 1) break;
            bool any = false;
            size_t parts = std::min<size_t>(sw.size(), (size_t)2 << round);
            for (size_t p = 0; p < parts && mr.runs < max_runs; ++p) {
                size_t lo = sw.size() * p / parts, hi = sw.size() * (p + 1) / parts;
                if (lo >= hi) continue;
                Case cand = best; std::vector<uint16_t> &g = cand.ops[i].forced;
                size_t from = sw[lo], to = hi < sw.size() ? sw[hi] : g.size();
                if (from >= g.size()) continue;
                for (size_t k = from; k < to && k < g.size(); ++k) g[k] = g[from - 1];
                if (attempt(cand)) { any = true; break; }
            }
            if (!any && parts >= sw.size()) break;
        }
    }
    // final: write replay, gate in a fresh process
    Case fin = best;
    J rf = run(fin);
    mr.gate_ok = has_class(rf, prop, sig);
    bool crashy2 = rf.str("end") == "sanitizer" || rf.str("end") == "signal" || rf.str("end") == "wall_timeout";
    if (mr.gate_ok && !crashy2 && rf.str("ho") != rbest.str("ho")) { mr.gate_ok = false; mr.summary = "final replay changed H_obs; "; }
    J file = J::obj();
    file.set("property", prop).set("sig", sig).set("oracle_detail", class_detail(rf, prop, sig)).set("flavour", flavour)
        .set("h_obs", rf.str("ho")).set("end", rf.str("end")).set("original_seed", J((long long)c.seed)).set("profile", c.profile)
        .set("case", case_to_j(fin));
    char name[256];
    std::string s2 = sig; for (auto &ch : s2) if (!isalnum((unsigned char)ch)) ch = '_';
    if (s2.size() > 60) s2.resize(60);
    snprintf(name, sizeof name, "%s/%s-%s-%s-%llu.json", replay_dir.c_str(), prop.c_str(), c.profile.c_str(), s2.c_str(), (unsigned long long)c.seed);
    { std::ofstream f(name); f << file.dump() << "\n"; }
    mr.path = name;
    char sm[256];
    snprintf(sm, sizeof sm, "n %d->%d, nprocs %d->%d, ops %zu->%zu, decisions %zu, re-executions %ld", n0, fin.M.n, p0, fin.ops.empty() ? 0 : fin.ops.back().x.nprocs,
             ops0, fin.ops.size(), fin.ops.empty() ? (size_t)0 : fin.ops.back().forced.size(), mr.runs);
    mr.summary += sm;
    return mr;
}
