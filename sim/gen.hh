// Seeded workload / configuration / schedule generation.
#pragma once
#include "case.hh"

struct GenOpts {
    int tier = 0;          // 0 quick, 1 thorough
    int S = 8;             // schedules per configuration
    int force_prec = -1;
    long index = 0;        // running index (seed - base), used by enumerating profiles
    long alloc_K = 0;      // alloc profile: allocator requests of the fault-free run of this configuration
    std::vector<long> bounds; // alloc profile: cumulative caller-workspace usage after each request of a sufficient run
    long lwork_sufficient = 0;
    long first_call_peak = 0; // alloc profile, two-call configurations: peak caller-workspace usage of the first call in a sufficient run
};

// Everything about run `seed` of `profile`.  The configuration (matrix, values, options, tunables) is a
// function of (profile, seed / S); the schedule, strategy and fault plan are a function of seed itself.
Case gen_case(const std::string &profile, uint64_t seed, const GenOpts &go);

// helpers shared with the runner
void gen_sched(sim::Rng &r, sim::SchedSpec &s, int nprocs, bool serial_baseline, const std::string &profile);
std::vector<cld> gen_values(sim::Rng &r, const Mat &M, int valclass, int prec, const std::vector<int> &transversal);
cld round_prec(cld v, int prec);
