// Event monitors: shadow state built only from hook events; invariants of C03/C04/C05/C06 evaluated while the run proceeds.
#pragma once
#include "case.hh"

void monitor_install();
void monitor_begin_op(const Case &c, const OpSpec &op, int opi);
void monitor_end_op(Outcome &out, int opi, long info);     // end-of-op invariants (exactly-once, tasks_remain == 0, ...)
void monitor_collect(std::vector<Viol> &into, int opi);    // move pending violations
void monitor_probes(std::map<std::string, long> &into);
long monitor_first_zero_col();                              // smallest 0-based column with an all-zero candidate set in the current op, or -1    // add and reset probe counters
const std::vector<long> &monitor_stack_marks();               // caller-workspace usage after each stack operation of the current op
long monitor_init_events();                                    // factorizations actually started in the current op
// called from the INIT event with true when the preset slot layout skipped a relaxed supernode because its first column lies
// strictly inside a supernode of the bounding partition (precondition of finding D27)
extern void (*monitor_layout_cb)(bool relaxed_snode_inside_h_supernode);
