// simfact: engine A driver.  Modes: one | batch | replay
#include "runner.hh"
#include "gen.hh"
#include "minimise.hh"
#include <unistd.h>
#include <fcntl.h>
#include <poll.h>
#include <signal.h>
#include <sched.h>
#include <malloc.h>
#include <execinfo.h>
#include <dlfcn.h>
#include <sys/wait.h>
#include <sys/stat.h>
#include <time.h>
#include <unordered_set>
#include <set>
#include <fstream>
#include <sstream>
#include <algorithm>

static double now_s() { struct timespec ts; clock_gettime(CLOCK_MONOTONIC, &ts); return ts.tv_sec + ts.tv_nsec * 1e-9; }

extern "C" const char *__asan_default_options() __attribute__((used, visibility("default")));
extern "C" const char *__asan_default_options() { return "exitcode=77:detect_leaks=0:abort_on_error=0:allocator_may_return_null=1:detect_stack_use_after_return=0:handle_segv=1"; }
extern "C" const char *__ubsan_default_options() __attribute__((used, visibility("default")));
extern "C" const char *__ubsan_default_options() { return "halt_on_error=1:exitcode=77:print_stacktrace=1"; }

struct Args {
    std::string mode, profile = "ssv", out, known, replay_dir = "/verif/replays", errdir, file, dump_case, flavour = "plain";
    uint64_t base = 0, seed = 0; long count = 100; int workers = 16, tier = 0, S = 8; bool verbose = false;
    std::string dump_hashes;
    double timeout_s = 30, wall_cap_s = 0; int force_prec = -1; bool no_min = false; long max_min_runs = 400;
};

static std::string slurp(const std::string &p) { std::ifstream f(p); std::stringstream ss; ss << f.rdbuf(); return ss.str(); }

// ------------------------------------------------------------------ child-side plumbing
static void child_setup(int wfd, const std::string &errfile) {
    int dn = open("/dev/null", O_WRONLY);
    if (dn >= 0) { dup2(dn, 1); close(dn); }
    int ef = open(errfile.c_str(), O_CREAT | O_RDWR | O_APPEND | O_TRUNC, 0644);
    if (ef >= 0) { dup2(ef, 2); sim::stderr_capture_fd = ef; }
    sim::result_fd = wfd;
    signal(SIGPIPE, SIG_IGN);
}

static void sig_handler(int sig) {
    // best effort: name the first frame that is neither the handler nor libc (we are about to die anyway)
    void *bt[12]; int nb = backtrace(bt, 12); const char *fn = "?";
    for (int i = 2; i < nb; ++i) { Dl_info di; if (dladdr(bt[i], &di) && di.dli_sname && !strstr(di.dli_sname, "sig_handler") && strncmp(di.dli_sname, "__", 2) && strcmp(di.dli_sname, "raise") && strcmp(di.dli_sname, "abort") && strcmp(di.dli_sname, "gsignal")) { fn = di.dli_sname; break; } }
    char buf[200];
    int n = snprintf(buf, sizeof buf, "X {\"signal\":%d,\"fn\":\"%s\"}\n", sig, fn);
    if (sim::result_fd >= 0) { ssize_t w = write(sim::result_fd, buf, (size_t)n); (void)w; }
    _exit(70);
}
static void install_signal_handlers() {
#if !defined(__SANITIZE_ADDRESS__)
    static char altstack[1 << 16];
    stack_t ss; ss.ss_sp = altstack; ss.ss_size = sizeof altstack; ss.ss_flags = 0; sigaltstack(&ss, nullptr);
    struct sigaction sa; memset(&sa, 0, sizeof sa); sa.sa_handler = sig_handler; sa.sa_flags = SA_ONSTACK;
    for (int s : {SIGSEGV, SIGBUS, SIGFPE, SIGILL, SIGABRT}) sigaction(s, &sa, nullptr);
#endif
}

static void write_all(int fd, const std::string &s) { size_t o = 0; while (o < s.size()) { ssize_t w = write(fd, s.data() + o, s.size() - o); if (w <= 0) break; o += (size_t)w; } }

// alloc profile: configuration context = allocator requests of the fault-free run and workspace boundaries of a sufficient run
static void compute_alloc_ctx(const Args &a, GenOpts &go, long chunk) {
    go.alloc_K = 0; go.bounds.clear(); go.lwork_sufficient = 0; go.first_call_peak = 0;
    uint64_t first = a.base + (uint64_t)(chunk * a.S);
    Case c0 = gen_case(a.profile, first, go);
    RunnerOpts r0; r0.record = false;
    Outcome o0 = run_case(c0, r0);
    go.alloc_K = o0.alloc_requests;
    if (!c0.ops.empty()) {
        Case c2 = c0; for (auto &q : c2.ops) { q.kind = OP_GSSVX; q.x.lwork = 16L << 20; q.x.work_align = 0; }   // the marks of the last call are kept
        Outcome o2 = run_case(c2, r0);
        long mx = 0; std::vector<long> b;
        for (long m : o2.stack_marks) { if (m > 0) b.push_back(m); mx = std::max(mx, m); }
        std::sort(b.begin(), b.end()); b.erase(std::unique(b.begin(), b.end()), b.end());
        if (b.size() > 40) { std::vector<long> b2; for (size_t i = 0; i < 39; ++i) b2.push_back(b[i * b.size() / 40]); b2.push_back(b.back()); b = b2; }
        go.bounds = b; go.lwork_sufficient = (mx + mx / 4 + 4096) & ~7L;
        go.first_call_peak = o2.stack_peaks.size() >= 2 ? o2.stack_peaks[0] : 0;
        if (o2.stack_peaks.size() >= 2) go.lwork_sufficient = (std::max(mx, go.first_call_peak) * 5 / 4 + 4096) & ~7L;
    }
}

// regenerate the case of a seed exactly as a worker would (in a child process: the context runs execute library code)
static bool regen_case(const Args &a, uint64_t seed, Case &out) {
    GenOpts go; go.tier = a.tier; go.S = a.S; go.force_prec = a.force_prec; go.index = (long)(seed - a.base);
    if (a.profile != "alloc") { out = gen_case(a.profile, seed, go); return true; }
    int pfd[2]; if (pipe(pfd) != 0) return false;
    pid_t pid = fork();
    if (pid == 0) {
        close(pfd[0]);
        child_setup(-1, "/dev/null");
        runner_install();
        compute_alloc_ctx(a, go, go.index / a.S);
        Case c = gen_case(a.profile, seed, go);
        write_all(pfd[1], case_to_j(c).dump());
        { sim::flush_coverage(); _exit(0); }
    }
    close(pfd[1]);
    std::string buf; char tmp[65536]; ssize_t n;
    while ((n = read(pfd[0], tmp, sizeof tmp)) > 0) buf.append(tmp, (size_t)n);
    close(pfd[0]); int st = 0; waitpid(pid, &st, 0);
    J j; return J::parse_str(buf, j) && case_from_j(j, out);
}

// ------------------------------------------------------------------ C18: carry-over probes
// A zygote is forked before the worker has executed any library code; on request it forks a grandchild that runs
// the probe as the first library call of a pristine process and reports the probe's H_obs.
struct Zygote { pid_t pid = -1; int to = -1, from = -1; };
struct ProbeReply { uint64_t hash; uint64_t flag; }; // flag 1 ok, 2 ended abnormally inside the simulator, 3 crashed

static Case gen_probe(const Args &a, uint64_t seed) {
    GenOpts go; go.tier = a.tier; go.S = 8; go.force_prec = a.force_prec;
    static const char *pp[] = {"ssv", "strf", "strf", "svx", "mem"};
    sim::Rng r(sim::derive(seed, 0xC18));
    std::string prof = pp[r.below(5)];
    uint64_t ps = (sim::derive(seed, 0xC18C18) % 1000000007ULL) * 8 + 1 + (seed % 7);
    if (r.chance(0.45)) {
        // split probe: a first-time factorization followed by solves that reuse its factors; the worker executes the prefix history
        // *between* the factorization and the solves, the pristine process executes the probe uninterrupted
        Case h = gen_case("hist", ps, go);
        std::vector<OpSpec> keep;
        for (auto &op : h.ops) {
            bool first_time = (op.kind == OP_GSSVX && op.x.fact != 2 && !op.x.refact) || (op.kind == OP_ROUTE && !op.x.refact);
            bool reuse = (op.kind == OP_GSSVX && op.x.fact == 2) || op.kind == OP_GSTRS;
            if (keep.empty()) { if (first_time) keep.push_back(op); else break; }
            else if (reuse) keep.push_back(op);
            else break;
        }
        if (keep.size() >= 2) {
            h.ops = keep; h.tags["split_probe"] = 1;
            for (auto &op : h.ops) op.dyn_snode = false;
            return h;
        }
    }
    Case c = gen_case(prof, ps, go);
    for (auto &op : c.ops) op.dyn_snode = false;     // keep probes clear of the listed dynamic-storage finding
    if (prof == "svx" && !c.ops.empty() && c.ops[0].kind == OP_GSSVX && c.ops[0].x.fact != 2) {
        // probes that end in an early return: a caller workspace far too small (info = bytes + n: the value itself is part of the result)
        // or a workspace query (the estimate is part of the result)
        int k = (int)r.below(100);
        if (k < 18) { c.ops[0].x.lwork = 8 * (long)r.range(1, 600); c.ops[0].x.work_align = 0; c.tags["probe_tiny_workspace"] = 1; }
        else if (k < 26) { c.ops[0].x.lwork = -1; c.tags["probe_query"] = 1; }
    }
    return c;
}

static Zygote start_zygote(const Args &a) {
    Zygote z; int p1[2], p2[2];
    if (pipe(p1) != 0 || pipe(p2) != 0) return z;
    pid_t pid = fork();
    if (pid == 0) {
        close(p1[1]); close(p2[0]);
        signal(SIGPIPE, SIG_IGN);
        for (;;) {
            uint64_t seed; ssize_t n = read(p1[0], &seed, sizeof seed);
            if (n != (ssize_t)sizeof seed) _exit(0);
            pid_t g = fork();
            if (g == 0) {
                child_setup(-1, "/dev/null");
                runner_install();
                int wfd = p2[1];
                sim::on_die = [wfd](int, const std::string &) { ProbeReply r{0, 2}; if (write(wfd, &r, sizeof r) < 0) {} return std::string(); };
                Case probe = gen_probe(a, seed);
                RunnerOpts ro; ro.record = false;
                Outcome o = run_case(probe, ro);
                ProbeReply r{o.h_obs, 1};
                if (write(wfd, &r, sizeof r) < 0) {}
                { sim::flush_coverage(); _exit(0); }
            }
            int st = 0; waitpid(g, &st, 0);
            if (!(WIFEXITED(st) && WEXITSTATUS(st) == 0)) { ProbeReply r{0, 3}; if (write(p2[1], &r, sizeof r) < 0) {} }
        }
    }
    close(p1[0]); close(p2[1]);
    z.pid = pid; z.to = p1[1]; z.from = p2[0];
    return z;
}
static bool zygote_probe(Zygote &z, uint64_t seed, ProbeReply &r) {
    if (z.pid < 0) return false;
    if (write(z.to, &seed, sizeof seed) != (ssize_t)sizeof seed) return false;
    size_t got = 0; char *p = (char *)&r;
    while (got < sizeof r) { ssize_t n = read(z.from, p + got, sizeof r - got); if (n <= 0) return false; got += (size_t)n; }
    return true;
}

// one carry run: prefix history (other sizes / precisions / modes), then the probe; the probe's H_obs must equal the fresh one
static Outcome run_carry(const Args &a, uint64_t seed, Zygote &z, Case &probe_out) {
    GenOpts go; go.tier = a.tier; go.S = 8; go.force_prec = -1;
    sim::Rng r(sim::derive(seed, 0xCA881));
    static const char *pre[] = {"hist", "hist", "leak", "svx", "strf", "ssv", "mem", "sing", "leak", "hist"};
    int np = (int)r.range(1, 2);
    std::string names; long pre_viols = 0;
    auto run_prefix = [&]() {
        for (int k = 0; k < np; ++k) {
            std::string prof = pre[r.below(10)];
            uint64_t ps = (sim::derive(seed, 77 + k) % 1000000007ULL) * 8 + 1 + (uint64_t)r.below(7);
            Case pc = gen_case(prof, ps, go);
            RunnerOpts ro; ro.record = false;   // a prefix may end the process through a listed finding: accepted
            Outcome po = run_case(pc, ro);
            pre_viols += (long)po.viols.size();
            names += prof + "(" + prec_name(pc.prec) + ",n=" + std::to_string(pc.M.n) + ") ";
        }
    };
    Case probe = gen_probe(a, seed);
    probe_out = probe;
    bool split = probe.tags.count("split_probe") > 0;
    RunnerOpts ro; ro.record = false;
    if (split) { ro.between = run_prefix; ro.between_after = 0; } else run_prefix();
    Outcome o = run_case(probe, ro);
    if (split) o.probes["carry_split_probes"]++;
    if (probe.tags.count("probe_tiny_workspace")) o.probes["carry_failing_probes"]++;
    if (probe.tags.count("probe_query")) o.probes["carry_query_probes"]++;
    o.probes["carry_prefix_cases"] += np; o.probes["carry_prefix_violations_coobserved"] += pre_viols;
    if (o.sample.t == J::OBJ) o.sample.set("carry_prefix", names);
    ProbeReply f1{0, 0};
    if (!zygote_probe(z, seed, f1)) { Viol v; v.prop = "MACHINERY"; v.oracle = v.sig = "zygote_unreachable"; v.detail = "fresh-process probe could not be obtained"; o.viols.push_back(v); return o; }
    if (f1.flag != 1) { o.excl["carry_fresh_probe_ended_abnormally"]++; return o; }
    o.probes["carry_probes_compared"]++;
    if (f1.hash != o.h_obs) {
        ProbeReply f2{0, 0};
        bool ok2 = zygote_probe(z, seed, f2);
        Viol v; v.op = 0;
        char hb[160]; snprintf(hb, sizeof hb, "probe H_obs after prefix [%s] = %016llx, fresh process = %016llx", names.c_str(), (unsigned long long)o.h_obs, (unsigned long long)f1.hash);
        if (!ok2 || f2.flag != 1 || f2.hash != f1.hash) { v.prop = "MACHINERY"; v.oracle = v.sig = "fresh_probe_not_deterministic"; v.detail = hb; }
        else { v.prop = "C18"; v.oracle = v.sig = "probe_differs_after_prefix"; v.detail = hb; }
        o.viols.push_back(v);
    }
    return o;
}

static bool res_hit(const J &res, const std::string &prop, const std::string &sig) {
    if (const J *vv = res.get("viol")) for (auto &x : vv->a) if (x.str("p") == prop && x.str("sig") == sig) return true;
    return false;
}

// worker: runs seeds base+idx for idx in my chunks, starting at start_idx
static void pin_to_cpu(int k) {
    // all threads of one simulated process share one core: a baton hand-off is then a plain context switch
    long nc = sysconf(_SC_NPROCESSORS_ONLN);
    if (nc <= 0) return;
    cpu_set_t set; CPU_ZERO(&set); CPU_SET((int)(k % nc), &set);
    sched_setaffinity(0, sizeof set, &set);
}

static void worker_main(const Args &a, int slot, long start_idx, bool skip_baseline, int wfd) {
    pin_to_cpu(slot);
    mallopt(M_MMAP_THRESHOLD, 1 << 30); mallopt(M_TRIM_THRESHOLD, 1 << 30);
    Zygote zy; if (a.profile == "carry") zy = start_zygote(a);
    runner_install();
    install_signal_handlers();
    GenOpts go; go.tier = a.tier; go.S = a.S; go.force_prec = a.force_prec;
    long base_steps = 0; long base_chunk = -1; long alloc_ctx_chunk = -1;
    for (long idx = start_idx; idx < a.count; ++idx) {
        long chunk = idx / a.S;
        if (chunk % a.workers != slot) { idx = (chunk + 1) * a.S - 1; continue; }
        uint64_t seed = a.base + (uint64_t)idx;
        char hdr[64]; snprintf(hdr, sizeof hdr, "B %llu\n", (unsigned long long)seed);
        write_all(wfd, hdr);
        go.index = idx;
        if (a.profile == "carry") {
            Case probe; Outcome o = run_carry(a, seed, zy, probe);
            probe.seed = seed;
            write_all(wfd, "R " + result_line(probe, o) + "\n");
            continue;
        }
        if (a.profile == "alloc" && alloc_ctx_chunk != chunk) { compute_alloc_ctx(a, go, chunk); alloc_ctx_chunk = chunk; }
        Case c = gen_case(a.profile, seed, go);
        RunnerOpts ro; ro.record = false;
        bool is_base = (idx % a.S) == 0;
        if (is_base || base_chunk != chunk) base_steps = 0;
        if (!is_base && skip_baseline && base_chunk != chunk) base_steps = 0;
        ro.baseline_steps = is_base ? 0 : base_steps;
        Outcome o = run_case(c, ro);
        if (is_base && o.end == 0) { base_steps = o.steps / std::max<size_t>(1, c.ops.size()); base_chunk = chunk; }
        skip_baseline = false;
        write_all(wfd, "R " + result_line(c, o) + "\n");
    }
    { sim::flush_coverage(); _exit(0); }
}

// ------------------------------------------------------------------ synthesising results for dead children
static J synth_crash(uint64_t seed, int status, const std::string &errtext, bool timeout, int sig_from_child, const std::string &tag = "", const std::string &sigfn = "") {
    J j = J::obj();
    j.set("seed", J((long long)seed));
    J v = J::obj();
    std::string sig, detail;
    if (timeout) { j.set("end", "wall_timeout"); v.set("p", "C04").set("o", "wall_timeout"); sig = "wall_timeout"; detail = "no yield point reached within the watchdog limit"; }
    else if (WIFEXITED(status) && WEXITSTATUS(status) == 77) {
        j.set("end", "sanitizer");
        // classify: error type + first library frame
        std::string type = "unknown", fn = "?";
        size_t p = errtext.find("ERROR: AddressSanitizer: ");
        if (p != std::string::npos) { size_t e = errtext.find_first_of(" \n", p + 25); type = errtext.substr(p + 25, e - (p + 25)); }
        else if ((p = errtext.find("runtime error: ")) != std::string::npos) { size_t e = errtext.find('\n', p); type = "ubsan:" + errtext.substr(p + 15, std::min<size_t>(40, e - (p + 15))); size_t hx = type.find("0x"); if (hx != std::string::npos) type.resize(hx); while (!type.empty() && type.back() == ' ') type.pop_back(); }
        size_t q = errtext.find("#0 ");
        for (int k = 0; k < 6 && q != std::string::npos; ++k) {
            size_t in = errtext.find(" in ", q), eol = errtext.find('\n', q);
            if (in != std::string::npos && in < eol) {
                size_t e = errtext.find_first_of(" \n", in + 4);
                std::string f = errtext.substr(in + 4, e - (in + 4));
                if (f.find("__asan") == std::string::npos && f.find("__interceptor") == std::string::npos && f.find("__wrap") == std::string::npos &&
                    f != "memcpy" && f != "memset" && f.find("sim::") == std::string::npos) { fn = f; break; }
            }
            q = errtext.find("\n    #", q + 1);
            if (q != std::string::npos) ++q;
        }
        v.set("p", "C05").set("o", "sanitizer"); sig = "sanitizer:" + type + ":" + fn; detail = errtext.substr(0, 1200);
    } else if (sig_from_child || WIFSIGNALED(status) || (WIFEXITED(status) && WEXITSTATUS(status) == 70)) {
        int s = sig_from_child ? sig_from_child : WIFSIGNALED(status) ? WTERMSIG(status) : 0;
        j.set("end", "signal");
        v.set("p", "C05").set("o", "fatal_signal"); sig = "fatal_signal:" + std::to_string(s) + (sigfn.empty() ? "" : ":" + sigfn); detail = "process killed by signal " + std::to_string(s) + " " + errtext.substr(0, 300);
    } else {
        j.set("end", "machinery");
        v.set("p", "MACHINERY").set("o", "child_exit"); sig = "child_exit"; detail = "exit status " + std::to_string(status) + " " + errtext.substr(0, 300);
    }
    if (v.str("p") != "MACHINERY") sig += tag;
    v.set("sig", sig).set("d", detail).set("op", -1);
    J vs = J::arr(); vs.push(v); j.set("viol", vs);
    return j;
}

// History replay: one fresh process executes the runs of `hist` exactly as a long-lived worker would (same profile, same generation
// context), then the run of `seed`.  Returns the result object of the final run: its result line, a synthesised crash result if the
// process died inside it, or {"end":"history_died"} if the process ended before reaching it.
static J history_trial(const Args &a, const std::vector<uint64_t> &hist, uint64_t seed, const std::string &errdir, double timeout_s) {
    J none = J::obj(); none.set("end", "history_died");
    int pfd[2]; if (pipe(pfd) != 0) return none;
    std::string errfile = errdir + "/hist." + std::to_string(getpid()) + "." + std::to_string((unsigned long long)seed) + ".err";
    pid_t pid = fork();
    if (pid == 0) {
        close(pfd[0]); child_setup(pfd[1], errfile);
        pin_to_cpu((int)(getpid() % 16));
        mallopt(M_MMAP_THRESHOLD, 1 << 30); mallopt(M_TRIM_THRESHOLD, 1 << 30);
        Zygote zy; if (a.profile == "carry") zy = start_zygote(a);
        runner_install(); install_signal_handlers();
        GenOpts go; go.tier = a.tier; go.S = a.S; go.force_prec = a.force_prec;
        long alloc_ctx_chunk = -1;
        std::vector<uint64_t> all = hist; all.push_back(seed);
        for (size_t k = 0; k < all.size(); ++k) {
            bool last = k + 1 == all.size(); uint64_t sd = all[k];
            long idx = (long)(sd - a.base), chunk = idx / a.S;
            char hdr[64]; snprintf(hdr, sizeof hdr, "B %llu\n", (unsigned long long)sd); write_all(pfd[1], hdr);
            sim::result_fd = last ? pfd[1] : -1;
            if (last && sim::stderr_capture_fd >= 0) { if (ftruncate(sim::stderr_capture_fd, 0) != 0) {} }
            go.index = idx;
            if (a.profile == "carry") { Case pr; Outcome o = run_carry(a, sd, zy, pr); pr.seed = sd; if (last) write_all(pfd[1], "R " + result_line(pr, o) + "\n"); continue; }
            if (a.profile == "alloc" && alloc_ctx_chunk != chunk) { compute_alloc_ctx(a, go, chunk); alloc_ctx_chunk = chunk; }
            Case c = gen_case(a.profile, sd, go);
            RunnerOpts ro; ro.record = false; ro.baseline_steps = 0;
            Outcome o = run_case(c, ro);
            if (last) write_all(pfd[1], "R " + result_line(c, o) + "\n");
        }
        { sim::flush_coverage(); _exit(0); }
    }
    close(pfd[1]);
    std::string buf, tag, sigfn; int sigc = 0; uint64_t lastB = 0; bool haveB = false, timeout = false; J result; bool have = false;
    char tmp[65536]; double t0 = now_s();
    for (;;) {
        struct pollfd pf = {pfd[0], POLLIN, 0};
        int r = poll(&pf, 1, 250);
        if (r > 0) { ssize_t n = read(pfd[0], tmp, sizeof tmp); if (n <= 0) break; buf.append(tmp, (size_t)n); }
        if (now_s() - t0 > timeout_s) { kill(pid, SIGKILL); timeout = true; break; }
    }
    close(pfd[0]); int st = 0; waitpid(pid, &st, 0);
    std::istringstream is(buf); std::string line;
    while (std::getline(is, line)) {
        if (line.size() > 2 && line[0] == 'B') { lastB = strtoull(line.c_str() + 2, nullptr, 10); haveB = true; tag.clear(); }
        else if (line.size() > 2 && line[0] == 'T') tag = line.substr(2);
        else if (line.size() > 2 && line[0] == 'X') { J x; if (J::parse_str(line.substr(2), x)) { sigc = (int)x.num("signal"); sigfn = x.str("fn"); } }
        else if (line.size() > 2 && line[0] == 'R') { if (J::parse_str(line.substr(2), result)) have = true; }
    }
    std::string errtext = slurp(errfile); unlink(errfile.c_str());
    if (have) return result;
    if (haveB && lastB == seed && !(WIFEXITED(st) && WEXITSTATUS(st) == 0)) return synth_crash(seed, st, errtext, timeout, sigc, tag, sigfn);
    return none;
}

// delta debugging on a list of earlier runs: shortest sublist (kept in order) after which `seed` still shows (prop, sig)
static bool minimise_history(const Args &a, std::vector<uint64_t> &hist, uint64_t seed, const std::string &prop, const std::string &sig, const std::string &errdir, int &trials) {
    double t0 = now_s();
    auto fails = [&](const std::vector<uint64_t> &h) { ++trials; return res_hit(history_trial(a, h, seed, errdir, 300), prop, sig); };
    if (fails({})) { hist.clear(); return true; }
    if (hist.empty() || !fails(hist)) return false;
    size_t gran = 2;
    while (hist.size() >= 1 && trials < 80 && now_s() - t0 < 600) {
        size_t chunk = (hist.size() + gran - 1) / gran; bool reduced = false;
        for (size_t lo = 0; lo < hist.size() && trials < 80; lo += chunk) {          // keep only one chunk
            std::vector<uint64_t> sub(hist.begin() + (long)lo, hist.begin() + (long)std::min(hist.size(), lo + chunk));
            if (sub.size() < hist.size() && fails(sub)) { hist = sub; gran = 2; reduced = true; break; }
        }
        if (!reduced) for (size_t lo = 0; lo < hist.size() && trials < 80; lo += chunk) {   // drop one chunk
            std::vector<uint64_t> rest(hist.begin(), hist.begin() + (long)lo); rest.insert(rest.end(), hist.begin() + (long)std::min(hist.size(), lo + chunk), hist.end());
            if (rest.size() < hist.size() && fails(rest)) { hist = rest; gran = std::max<size_t>(gran - 1, 2); reduced = true; break; }
        }
        if (!reduced) { if (chunk <= 1) break; gran = std::min(hist.size(), gran * 2); }
    }
    return fails(hist);   // gate: a fresh process with the minimised history reproduces the class
}
static void write_history_replay(const Args &a, const std::string &path, const std::string &prop, const std::string &sig, const std::string &detail, const std::vector<uint64_t> &hist, uint64_t seed) {
    J file = J::obj(); file.set("property", prop).set("sig", sig).set("oracle_detail", detail).set("profile", a.profile).set("history_replay", true)
        .set("seed", J((long long)seed)).set("base", J((long long)a.base)).set("S", a.S).set("tier", a.tier).set("flavour", a.flavour);
    J hj = J::arr(); for (uint64_t h : hist) hj.push(J((long long)h)); file.set("history_seeds", hj);
    std::ofstream f(path); f << file.dump() << "\n";
}

// run one fully explicit case in a forked child; returns the result object (with schedule log)
J run_forked(const Case &c0, double timeout_s, const std::string &errdir, long baseline_steps) {
    int pfd[2];
    if (pipe(pfd) != 0) { J j = J::obj(); j.set("end", "machinery"); return j; }
    std::string errfile = errdir + "/forked." + std::to_string(getpid()) + ".err";
    pid_t pid = fork();
    if (pid == 0) {
        close(pfd[0]);
        child_setup(pfd[1], errfile);
        pin_to_cpu((int)(getpid() % 16));
        runner_install();
        install_signal_handlers();
        Case c = c0;
        RunnerOpts ro; ro.record = true; ro.baseline_steps = baseline_steps;
        Outcome o = run_case(c, ro);
        write_all(pfd[1], "R " + outcome_to_j(c, o, true).dump() + "\n");
        { sim::flush_coverage(); _exit(0); }
    }
    close(pfd[1]);
    std::string buf; char tmp[65536];
    double t0 = now_s(); bool timeout = false;
    for (;;) {
        struct pollfd p = {pfd[0], POLLIN, 0};
        int r = poll(&p, 1, 200);
        if (r > 0) { ssize_t n = read(pfd[0], tmp, sizeof tmp); if (n <= 0) break; buf.append(tmp, (size_t)n); }
        if (now_s() - t0 > timeout_s) { timeout = true; kill(pid, SIGKILL); break; }
    }
    close(pfd[0]);
    int status = 0; waitpid(pid, &status, 0);
    J res; bool got = false; int sigc = 0; std::string tag, sigfn;
    std::istringstream is(buf); std::string line;
    while (std::getline(is, line)) {
        if (line.size() > 2 && line[0] == 'T') tag = line.substr(2);
        if (line.size() > 2 && line[0] == 'R' && J::parse_str(line.substr(2), res)) got = true;
        if (line.size() > 2 && line[0] == 'X') { J x; if (J::parse_str(line.substr(2), x)) { sigc = (int)x.num("signal"); sigfn = x.str("fn"); } }
    }
    if (!got) res = synth_crash(c0.seed, status, slurp(errfile), timeout, sigc, tag, sigfn);
    unlink(errfile.c_str());
    return res;
}

// ------------------------------------------------------------------ aggregation
struct VClass { std::string prop, oracle, sig, detail; long count = 0; uint64_t first_seed = ~0ULL; };
struct Agg {
    long runs = 0;
    std::map<std::string, long> ends, probes, excl, faults, by_prec, by_family, by_n, by_strategy, by_nprocs;
    std::map<std::string, VClass> classes;
    std::unordered_set<std::string> hs, ho, hshape, nontrivial;
    long long steps = 0, decisions = 0, switches = 0, events = 0;
    std::vector<J> samples;
    void add(const J &r) {
        ++runs;
        ends[r.str("end", "normal")]++;
        if (const J *v = r.get("viol")) for (auto &x : v->a) {
            std::string key = x.str("p") + "|" + x.str("sig");
            VClass &c = classes[key];
            c.prop = x.str("p"); c.oracle = x.str("o"); c.sig = x.str("sig"); ++c.count;
            uint64_t s = (uint64_t)r.num("seed");
            if (s < c.first_seed) { c.first_seed = s; c.detail = x.str("d"); }
        }
        auto addmap = [&](const char *k, std::map<std::string, long> &m) { if (const J *p = r.get(k)) for (auto &kv : p->o) m[kv.first] += (long)kv.second.i; };
        addmap("probes", probes); addmap("excl", excl); addmap("faults", faults);
        if (r.has("hs")) { hs.insert(r.str("hs")); ho.insert(r.str("ho")); hshape.insert(r.str("hshape")); }
        steps += r.num("steps"); decisions += r.num("decisions"); switches += r.num("switches"); events += r.num("events");
        if (const J *s = r.get("sample")) {
            by_prec[s->str("prec")]++; by_family[s->str("family")]++;
            long n = (long)s->num("n"); by_n[n <= 4 ? "n<=4" : n <= 24 ? "n5-24" : n <= 60 ? "n25-60" : n <= 160 ? "n61-160" : "n>160"]++;
            if (const J *ops = s->get("ops")) if (!ops->a.empty()) {
                // non-trivial: at least two workers, at least two columns, and at least one real scheduling decision
                bool multi = false; for (auto &q : ops->a) if (q.num("nprocs") >= 2) multi = true;
                if (multi && n >= 2 && r.num("decisions") > 0 && r.has("ho")) nontrivial.insert(r.str("hs") + r.str("ho"));
                by_strategy[std::to_string(ops->a[0].num("strategy"))]++;
                long np = (long)ops->a[0].num("nprocs"); by_nprocs[np == 1 ? "1" : np <= 4 ? "2-4" : np <= 8 ? "5-8" : "9+"]++;
            }
            if (samples.size() < 4 && (runs % 97 == 1 || samples.empty())) { J q = *s; q.set("seed", J((long long)r.num("seed"))); q.set("end", r.str("end")); q.set("steps", J((long long)r.num("steps"))); samples.push_back(q); }
        }
    }
};

static J map_to_j(const std::map<std::string, long> &m) { J o = J::obj(); for (auto &kv : m) o.set(kv.first, J((long long)kv.second)); return o; }

// ------------------------------------------------------------------ batch
struct Slot { std::string tag, sigfn; pid_t pid = -1; int fd = -1; std::string buf; bool inflight = false; uint64_t inflight_seed = 0; double since = 0; long next_idx = 0; bool done = false; std::string errfile; int sigc = 0; int restarts = 0; std::vector<long> starts; };

static int cmd_batch(const Args &a) {
    double t0 = now_s();
    std::string errdir = a.errdir.empty() ? std::string("/verif/build/tmp") : a.errdir;
    mkdir("/verif/build", 0755); mkdir(errdir.c_str(), 0755); mkdir(a.replay_dir.c_str(), 0755);
    Agg agg;
    FILE *hf = a.dump_hashes.empty() ? nullptr : fopen(a.dump_hashes.c_str(), "w");
    std::vector<Slot> slots((size_t)a.workers);
    auto spawn = [&](int s, long start_idx, bool skip_baseline) {
        Slot &sl = slots[s];
        // does this slot have any work at or after start_idx?
        bool any = false;
        for (long idx = start_idx; idx < a.count; ++idx) { long ch = idx / a.S; if (ch % a.workers == s) { any = true; break; } idx = (ch + 1) * a.S - 1; }
        if (!any) { sl.done = true; sl.pid = -1; sl.fd = -1; return; }
        int pfd[2]; if (pipe(pfd) != 0) { sl.done = true; return; }
        sl.errfile = errdir + "/w" + std::to_string(getpid()) + "_" + std::to_string(s) + ".err";
        pid_t pid = fork();
        if (pid == 0) {
            close(pfd[0]);
            for (auto &o : slots) if (o.fd >= 0) close(o.fd);
            child_setup(pfd[1], sl.errfile);
            worker_main(a, s, start_idx, skip_baseline, pfd[1]);
            { sim::flush_coverage(); _exit(0); }
        }
        close(pfd[1]);
        sl.starts.push_back(start_idx);
        sl.pid = pid; sl.fd = pfd[0]; sl.buf.clear(); sl.inflight = false; sl.done = false; sl.since = now_s(); sl.sigc = 0;
    };
    for (int s = 0; s < a.workers; ++s) spawn(s, 0, false);
    long machinery_faults = 0;
    bool capped = false;
    for (;;) {
        std::vector<struct pollfd> pf; std::vector<int> idx;
        for (int s = 0; s < a.workers; ++s) if (!slots[s].done && slots[s].fd >= 0) { pf.push_back({slots[s].fd, POLLIN, 0}); idx.push_back(s); }
        if (pf.empty()) break;
        int r = poll(pf.data(), pf.size(), 250);
        double tn = now_s();
        if (a.wall_cap_s > 0 && tn - t0 > a.wall_cap_s && !capped) {
            capped = true;
            for (auto &sl : slots) if (sl.pid > 0 && !sl.done) kill(sl.pid, SIGKILL);
        }
        for (size_t k = 0; k < pf.size(); ++k) {
            Slot &sl = slots[idx[k]];
            bool eof = false;
            if (r > 0 && (pf[k].revents & (POLLIN | POLLHUP))) {
                char tmp[65536]; ssize_t n = read(sl.fd, tmp, sizeof tmp);
                if (n > 0) sl.buf.append(tmp, (size_t)n); else eof = true;
                size_t pos;
                while ((pos = sl.buf.find('\n')) != std::string::npos) {
                    std::string line = sl.buf.substr(0, pos); sl.buf.erase(0, pos + 1);
                    if (line.size() > 2 && line[0] == 'T') sl.tag = line.substr(2);
                    else if (line.size() > 2 && line[0] == 'B') { sl.tag.clear(); sl.sigfn.clear(); sl.inflight = true; sl.inflight_seed = strtoull(line.c_str() + 2, nullptr, 10); sl.since = tn; }
                    else if (line.size() > 2 && line[0] == 'R') {
                        J res; if (J::parse_str(line.substr(2), res)) { agg.add(res); if (hf) { std::string vs; if (const J *vv = res.get("viol")) for (auto &x : vv->a) vs += x.str("p") + ":" + x.str("sig") + ","; fprintf(hf, "%lld %s %s %s %s %s\n", res.num("seed"), res.str("hs").c_str(), res.str("ho").c_str(), res.str("hshape").c_str(), res.str("end").c_str(), vs.c_str()); } }
                        else ++machinery_faults;
                        sl.inflight = false; sl.next_idx = (long)(sl.inflight_seed - a.base) + 1;
                    } else if (line.size() > 2 && line[0] == 'X') { J x; if (J::parse_str(line.substr(2), x)) { sl.sigc = (int)x.num("signal"); sl.sigfn = x.str("fn"); } }
                }
            }
            bool timeout = sl.inflight && (tn - sl.since > a.timeout_s);
            if (timeout) kill(sl.pid, SIGKILL);
            if (eof || timeout) {
                int status = 0; waitpid(sl.pid, &status, 0);
                close(sl.fd); sl.fd = -1;
                if (capped) { sl.done = true; continue; }
                if (sl.inflight) {
                    J res = synth_crash(sl.inflight_seed, status, slurp(sl.errfile), timeout, sl.sigc, sl.tag, sl.sigfn);
                    // attach a sample by regenerating the configuration
                    agg.add(res);
                    sl.inflight = false;
                    long ni = (long)(sl.inflight_seed - a.base) + 1;
                    ++sl.restarts;
                    spawn(idx[k], ni, (ni % a.S) != 0);
                } else {
                    if (!(WIFEXITED(status) && WEXITSTATUS(status) == 0)) {
                        // died outside a run: after die() the child exits 0, so this is unexpected unless it was the final exit
                        ++machinery_faults;
                        ++sl.restarts;
                        if (sl.restarts < 1000) spawn(idx[k], sl.next_idx, (sl.next_idx % a.S) != 0); else sl.done = true;
                    } else {
                        // exit 0: either finished all work or ended through die() after writing its R line
                        if (sl.next_idx >= a.count) sl.done = true;
                        else { ++sl.restarts; spawn(idx[k], sl.next_idx, (sl.next_idx % a.S) != 0); }
                    }
                }
            }
        }
    }
    for (auto &sl : slots) if (!sl.errfile.empty()) unlink(sl.errfile.c_str());
    if (hf) fclose(hf);
    double t1 = now_s();

    // ---- violations: replay files (minimised), gated
    std::set<std::string> known;
    { std::stringstream ss(a.known); std::string k; while (std::getline(ss, k, ',')) if (!k.empty()) known.insert(k); }
    J viols = J::arr(); int gate_fail = 0;
    GenOpts go; go.tier = a.tier; go.S = a.S; go.force_prec = a.force_prec;
    int nclass = 0;
    auto slot_history = [&](uint64_t seed) {
        long vidx = (long)(seed - a.base); int vslot = (int)((vidx / a.S) % a.workers);
        long from = 0; for (long st_ : slots[(size_t)vslot].starts) if (st_ <= vidx) from = std::max(from, st_);
        std::vector<uint64_t> hist;
        for (long idx = from; idx < vidx; ++idx) { long ch = idx / a.S; if (ch % a.workers != vslot) { idx = (ch + 1) * a.S - 1; continue; } hist.push_back(a.base + (uint64_t)idx); }
        return hist;
    };
    for (auto &kv : agg.classes) {
        VClass &vc = kv.second;
        J v = J::obj();
        v.set("prop", vc.prop).set("oracle", vc.oracle).set("sig", vc.sig).set("count", (long long)vc.count).set("first_seed", J((long long)vc.first_seed)).set("detail", vc.detail);
        bool is_known = known.count(vc.prop + ":" + vc.sig) > 0;
        v.set("known", is_known);
        if (!a.no_min && a.profile == "carry" && vc.prop != "C18" && vc.prop != "MACHINERY") {
            // co-observed classes of prefix cases: they belong to other properties' checks and carry the prefix case's own seed
            v.set("gate", "n/a");
        } else if (!a.no_min && a.profile == "carry" && ++nclass <= 60) {
            // replay = (history, seed): the carry runs the same worker process executed before this seed since its last (re)start,
            // minimised by delta debugging, then the seed itself (prefix and probe are functions of the seed).
            // Gate: a fresh process that executes the minimised history and the seed must reproduce the class.
            std::vector<uint64_t> hist = slot_history(vc.first_seed);
            size_t hist0 = hist.size(); int trials = 0;
            bool hit = minimise_history(a, hist, vc.first_seed, vc.prop, vc.sig, errdir, trials);
            std::string path = a.replay_dir + "/" + vc.prop + "-carry-" + std::to_string((unsigned long long)vc.first_seed) + ".json";
            write_history_replay(a, path, vc.prop, vc.sig, vc.detail, hist, vc.first_seed);
            char ms[200]; snprintf(ms, sizeof ms, "history replay: %zu earlier carry runs of the same worker process minimised to %zu, then the seed; %d re-executions", hist0, hist.size(), trials);
            v.set("replay", path).set("gate", hit ? "ok" : "fail").set("min_summary", ms);
            if (!hit) ++gate_fail;
        } else if (!a.no_min && vc.oracle == "wall_timeout" && ++nclass <= 60) {
            // the wall-clock watchdog is the only verdict that depends on the machine: a run that exceeded it under load but completes
            // when executed again (alone, with four times the limit) says nothing about the library.  A genuine hang between two
            // yield points is deterministic and fails this re-execution as well.
            Case c; bool again = true;
            if (regen_case(a, vc.first_seed, c)) {
                J r1 = run_forked(c, a.timeout_s * 4, errdir, 0);
                again = r1.str("end") == "wall_timeout" || r1.str("end") == "machinery";
            }
            if (again) {
                // every re-execution of a genuine hang costs a full watchdog period: a handful of minimisation steps only
                MinResult mr = minimise_and_write(c, vc.prop, vc.sig, a.replay_dir, errdir, a.timeout_s * 2, 6, a.flavour);
                v.set("replay", mr.path).set("gate", mr.gate_ok ? "ok" : "fail").set("min_summary", mr.summary);
                if (!mr.gate_ok) ++gate_fail;
            } else v.set("gate", "transient").set("min_summary", "watchdog limit exceeded once under load; the same case completed when re-executed alone");
        } else if (!a.no_min && ++nclass <= 60) {
            Case c;
            if (!regen_case(a, vc.first_seed, c)) { v.set("gate", "fail").set("min_summary", "case could not be regenerated"); ++gate_fail; viols.push(v); continue; }
            MinResult mr = minimise_and_write(c, vc.prop, vc.sig, a.replay_dir, errdir, a.timeout_s, is_known ? 40 : a.max_min_runs, a.flavour);
            v.set("replay", mr.path).set("gate", mr.gate_ok ? "ok" : "fail").set("min_runs", (long long)mr.runs).set("min_summary", mr.summary);
            if (!mr.gate_ok) {
                // not reproducible as the first case of a fresh process: does it need what earlier cases of the same worker process left behind?
                std::vector<uint64_t> hist = slot_history(vc.first_seed);
                size_t hist0 = hist.size(); int trials = 0;
                if (!hist.empty() && minimise_history(a, hist, vc.first_seed, vc.prop, vc.sig, errdir, trials) && !hist.empty()) {
                    std::string path = a.replay_dir + "/" + vc.prop + "-" + a.profile + "-history-" + std::to_string((unsigned long long)vc.first_seed) + ".json";
                    write_history_replay(a, path, vc.prop, vc.sig, vc.detail, hist, vc.first_seed);
                    char ms[260]; snprintf(ms, sizeof ms, "does not occur in a fresh process; reproduces after %zu earlier case(s) in the same process (state carried between calls): history of %zu minimised, %d re-executions", hist.size(), hist0, trials);
                    v.set("replay", path).set("gate", "ok").set("min_summary", ms).set("needs_history", true);
                } else ++gate_fail;
            }
        }
        viols.push(v);
    }

    J sum = J::obj();
    sum.set("profile", a.profile).set("flavour", a.flavour).set("base_seed", J((long long)a.base)).set("count", (long long)a.count).set("runs", (long long)agg.runs)
       .set("workers", a.workers).set("tier", a.tier).set("wall_s", t1 - t0).set("wall_total_s", now_s() - t0).set("capped", capped)
       .set("runs_per_hour", agg.runs / std::max(1e-9, t1 - t0) * 3600.0)
       .set("ends", map_to_j(agg.ends)).set("probes", map_to_j(agg.probes)).set("excluded", map_to_j(agg.excl)).set("faults_fired", map_to_j(agg.faults))
       .set("distinct_nontrivial", (long long)agg.nontrivial.size()).set("distinct_h_sched", (long long)agg.hs.size()).set("distinct_h_obs", (long long)agg.ho.size()).set("distinct_h_shape", (long long)agg.hshape.size())
       .set("sim_steps", J((long long)agg.steps)).set("decisions", J((long long)agg.decisions)).set("switches", J((long long)agg.switches)).set("events", J((long long)agg.events))
       .set("by_prec", map_to_j(agg.by_prec)).set("by_family", map_to_j(agg.by_family)).set("by_n", map_to_j(agg.by_n)).set("by_strategy", map_to_j(agg.by_strategy)).set("by_nprocs", map_to_j(agg.by_nprocs))
       .set("machinery_faults", (long long)machinery_faults).set("gate_failures", gate_fail).set("violations", viols);
    J sm = J::arr(); for (auto &s : agg.samples) sm.push(s); sum.set("samples", sm);
    std::string text = sum.dump();
    if (!a.out.empty()) { std::ofstream f(a.out); f << text << "\n"; }
    else printf("%s\n", text.c_str());
    return (machinery_faults || gate_fail) ? 2 : 0;
}

// ------------------------------------------------------------------ one / replay
static int cmd_one(const Args &a) {
    GenOpts go; go.tier = a.tier; go.S = a.S; go.force_prec = a.force_prec; go.index = (long)(a.seed - a.base);
    Case c = gen_case(a.profile, a.seed, go);
    if (!a.dump_case.empty()) { std::ofstream f(a.dump_case); f << case_to_j(c).dump() << "\n"; }
    sim::result_fd = 1;
    runner_install();
    RunnerOpts ro; ro.verbose = a.verbose;
    Outcome o = run_case(c, ro);
    printf("%s\n", outcome_to_j(c, o, a.verbose).dump().c_str());
    return o.viols.empty() ? 0 : 1;
}

static int cmd_replay(const Args &a) {
    J f; if (!J::parse_str(slurp(a.file), f)) { fprintf(stderr, "cannot parse %s\n", a.file.c_str()); return 2; }
    if (f.has("history_replay") || f.has("carry_seed")) {
        Args a2 = a; a2.profile = f.str("profile"); a2.tier = (int)f.num("tier");
        if (f.has("base")) { a2.base = (uint64_t)f.num("base"); a2.S = (int)f.num("S"); }
        uint64_t seed = (uint64_t)f.num(f.has("seed") ? "seed" : "carry_seed");
        std::vector<uint64_t> hist; if (const J *hj = f.get(f.has("history_seeds") ? "history_seeds" : "carry_history")) for (auto &x : hj->a) hist.push_back((uint64_t)x.i);
        std::string errdir = "/verif/build/tmp"; mkdir("/verif/build", 0755); mkdir(errdir.c_str(), 0755);
        J res = history_trial(a2, hist, seed, errdir, 600);
        printf("%s\n", res.dump().c_str());
        if (res_hit(res, f.str("property"), f.str("sig"))) { printf("VIOLATION property=%s replay=%s\n", f.str("property").c_str(), a.file.c_str()); return 1; }
        printf("replay did not reproduce %s/%s\n", f.str("property").c_str(), f.str("sig").c_str());
        return 0;
    }
    Case c; const J *cj = f.get("case");
    if (!cj || !case_from_j(*cj, c)) { fprintf(stderr, "no case in %s\n", a.file.c_str()); return 2; }
    std::string prop = f.str("property"), sig = f.str("sig");
    std::string errdir = "/verif/build/tmp"; mkdir("/verif/build", 0755); mkdir(errdir.c_str(), 0755);
    J r = run_forked(c, a.timeout_s, errdir, 0);
    bool hit = false;
    if (const J *v = r.get("viol")) for (auto &x : v->a) if (x.str("p") == prop && x.str("sig") == sig) hit = true;
    printf("%s\n", r.dump().c_str());
    if (hit) { printf("VIOLATION property=%s replay=%s\n", prop.c_str(), a.file.c_str()); return 1; }
    printf("replay did not reproduce %s/%s\n", prop.c_str(), sig.c_str());
    return 0;
}

static int cmd_runfile(const Args &a) {
    J f; if (!J::parse_str(slurp(a.file), f)) { fprintf(stderr, "cannot parse %s\n", a.file.c_str()); return 2; }
    Case c; const J *cj = f.get("case");
    if (!cj || !case_from_j(*cj, c)) { fprintf(stderr, "no case in %s\n", a.file.c_str()); return 2; }
    sim::result_fd = 1;
    runner_install();
    if (a.verbose) sim::trace_fd = 1;
    RunnerOpts ro; ro.verbose = a.verbose;
    Outcome o = run_case(c, ro);
    printf("%s\n", outcome_to_j(c, o, false).dump().c_str());
    return o.viols.empty() ? 0 : 1;
}

int main(int argc, char **argv) {
#ifdef SIM_VBLAS
    // the vendor BLAS must not bring its own thread pool: an uncontrolled scheduler inside a dependency
    if (!getenv("OPENBLAS_NUM_THREADS")) { setenv("OPENBLAS_NUM_THREADS", "1", 1); setenv("OMP_NUM_THREADS", "1", 1); execv("/proc/self/exe", argv); }
#endif
    Args a;
    if (argc < 2) { fprintf(stderr, "usage: simfact one|batch|replay ...\n"); return 2; }
    a.mode = argv[1];
    for (int i = 2; i < argc; ++i) {
        std::string k = argv[i];
        auto val = [&]() -> std::string { return i + 1 < argc ? argv[++i] : ""; };
        if (k == "--profile") a.profile = val(); else if (k == "--seed") a.seed = strtoull(val().c_str(), nullptr, 10);
        else if (k == "--base") a.base = strtoull(val().c_str(), nullptr, 10); else if (k == "--count") a.count = atol(val().c_str());
        else if (k == "--workers") a.workers = atoi(val().c_str()); else if (k == "--tier") a.tier = atoi(val().c_str());
        else if (k == "--out") a.out = val(); else if (k == "--known") a.known = val(); else if (k == "--replay-dir") a.replay_dir = val();
        else if (k == "--errdir") a.errdir = val(); else if (k == "-v") a.verbose = true; else if (k == "--timeout") a.timeout_s = atof(val().c_str());
        else if (k == "--wall-cap") a.wall_cap_s = atof(val().c_str()); else if (k == "--prec") a.force_prec = atoi(val().c_str());
        else if (k == "--dump-case") a.dump_case = val(); else if (k == "--no-min") a.no_min = true; else if (k == "--flavour") a.flavour = val();
        else if (k == "--S") a.S = atoi(val().c_str()); else if (k == "--dump-hashes") a.dump_hashes = val(); else if (k == "--max-min-runs") a.max_min_runs = atol(val().c_str());
        else if ((a.mode == "replay" || a.mode == "runfile") && a.file.empty()) a.file = k;
    }
    a.base -= a.base % (uint64_t)a.S;
    if (a.mode == "one") return cmd_one(a);
    if (a.mode == "batch") return cmd_batch(a);
    if (a.mode == "replay") return cmd_replay(a);
    if (a.mode == "runfile") return cmd_runfile(a);
    fprintf(stderr, "unknown mode %s\n", a.mode.c_str());
    return 2;
}
