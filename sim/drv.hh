// Precision-independent view of the SuperLU_MT public API.  One implementation per precision
// (drv_impl.cc compiled four times); everything crosses this interface in extended precision.
#pragma once
#include <complex>
#include <vector>
#include <string>
#include <cstdint>

typedef long double ld;
typedef std::complex<long double> cld;

enum { PREC_S = 0, PREC_D = 1, PREC_C = 2, PREC_Z = 3 };
static inline bool prec_is_complex(int p) { return p >= 2; }
static inline bool prec_is_single(int p) { return p == 0 || p == 2; }
static inline ld prec_eps(int p) { return prec_is_single(p) ? 0x1p-24L : 0x1p-53L; } // unit roundoff
static inline const char *prec_name(int p) { static const char *n[] = {"s", "d", "c", "z"}; return n[p]; }

// compressed-column arrays exactly as handed to the library.  With stype NR the same arrays are
// rowptr/colind, i.e. the mathematical matrix is the transpose of this CSC view.
struct Mat {
    int n = 0;
    std::vector<int> colptr, rowind;
    std::vector<cld> val;
    long nnz() const { return (long)val.size(); }
};

struct LUDump {
    long n = 0;
    // L (SCPformat)
    long L_nnz = 0, L_nsuper = 0;
    std::vector<long> col_to_sup, sup_to_colbeg, sup_to_colend;       // n+1 / n+1 / n   (as allocated by the library)
    std::vector<long> rowind_colbeg, rowind_colend;                   // per column
    std::vector<long> nzval_colbeg, nzval_colend;                     // per column
    std::vector<std::vector<long>> Lrows;                             // per supernode: row list (rowind[colbeg[fsupc]..colend[fsupc]))
    std::vector<std::vector<cld>> Lvals;                              // per column: nzval[nzval_colbeg..nzval_colend)
    // U (NCPformat)
    long U_nnz = 0;
    std::vector<long> U_colbeg, U_colend;
    std::vector<std::vector<long>> Urows;
    std::vector<std::vector<cld>> Uvals;
    bool ok = false;          // structure was readable (all extents within sane range)
    std::string why;
    uint64_t bits_hash = 0;   // hash over every stored integer and value bit pattern (detects any modification)
};

struct XOpts {                // expert driver / computational route options
    int nprocs = 1;
    int fact = 0;             // DOFACT, EQUILIBRATE, FACTORED
    int trans = 0;            // NOTRANS, TRANS, CONJ
    int refact = 0;
    int usepr = 0;
    int panel_size = 8, relax = 4;
    double u = 1.0;
    int sym_mode = 0;
    long lwork = 0;           // 0 system, >0 caller buffer of that many bytes, -1 query
    int work_align = 0;       // byte offset of the caller buffer from 8-byte alignment
};

struct XOut {
    long info = 0;
    int equed = 0;
    std::vector<ld> R, C, ferr, berr;
    ld rpg = 0, rcond = 0;
    double mem_for_lu = 0, mem_total_needed = 0; long mem_expansions = 0;
    bool work_guard_ok = true;   // canaries around the caller workspace intact
    bool lu_inside_work = true;  // every L/U array lies inside the caller buffer (lwork > 0)
    std::string lu_outside_which;
};

struct Drv {
    virtual ~Drv() {}
    virtual int prec() const = 0;
    // inputs
    virtual void set_matrix(const Mat &M, int stype_nr) = 0;   // (re)creates native A; pattern + values
    virtual void set_values(const std::vector<cld> &v) = 0;    // same pattern, new values
    virtual void set_rhs(const std::vector<cld> &B, int nrhs, int ldb) = 0; // column-major ldb x nrhs
    virtual void set_perm_c(const std::vector<int> &pc) = 0;
    virtual int get_perm_c_lib(int ispec) = 0;                 // library ordering on the NC view; returns 0
    virtual void set_perm_r(const std::vector<int> &pr) = 0;
    // calls (the caller wraps them in a simulated run)
    virtual long call_gssv(int nprocs) = 0;
    virtual void call_gssvx(const XOpts &o, XOut &out) = 0;
    virtual long call_gstrf_route(const XOpts &o, bool do_solve) = 0;  // pXgstrf_init + pXgstrf (+ Xgstrs on B)
    virtual void route_finalize() = 0;                                 // pxgstrf_finalize after the last route call
    virtual long call_gstrs(int trans) = 0;                            // solve with current factors, B overwritten
    virtual void destroy_LU(bool user_work) = 0;
    virtual bool have_LU() const = 0;
    // outputs
    virtual std::vector<cld> get_B() = 0;                      // n x nrhs (ldb stripped)
    virtual std::vector<cld> get_X() = 0;
    virtual std::vector<int> get_perm_c() = 0;
    virtual std::vector<int> get_perm_r() = 0;
    virtual std::vector<cld> get_A_values() = 0;
    virtual uint64_t A_hash() = 0;                             // hash of the three arrays of A as the library sees them
    virtual uint64_t B_hash() = 0;
    virtual uint64_t X_hash() = 0;
    virtual void dump_LU(LUDump &d) = 0;
    virtual cld round_to_prec(cld v) = 0;                      // value as representable in working precision
    virtual std::vector<long> get_etree() = 0;
    // ?langs(norm, A as the column-compressed view the route factorized) and ?gscon(norm, L, U, anorm) on the current factors
    virtual long call_gscon(char norm, ld &anorm, ld &rcond) = 0;
    // ?CompRow_to_CompCol on the matrix read as row-compressed (or on an empty matrix of the same order), results released with SUPERLU_FREE;
    // returns false if the converted arrays are not the transpose's column-compressed form
    virtual bool call_comprow_to_compcol(bool empty) = 0;
    virtual long call_trsv(const char *uplo, const char *trans, const char *diag, std::vector<cld> &x) = 0; // sp_?trsv on the current factors                 // options.etree after a factorization (size n) or empty
};

Drv *make_drv_s();
Drv *make_drv_d();
Drv *make_drv_c();
Drv *make_drv_z();
static inline Drv *make_drv(int p) {
    switch (p) { case PREC_S: return make_drv_s(); case PREC_D: return make_drv_d(); case PREC_C: return make_drv_c(); default: return make_drv_z(); }
}

// tuning-parameter seam: the harness's own sp_ienv() returns these
extern long g_ienv[9];
