// Reference arithmetic and oracles, independent of the library's code.  Everything in long double.
#pragma once
#include "drv.hh"
#include <string>
#include <vector>
#include <cmath>
#include <algorithm>

struct Dense {
    int n = 0;
    std::vector<cld> a; // row-major
    Dense() {}
    explicit Dense(int n_) : n(n_), a((size_t)n_ * n_, cld(0, 0)) {}
    cld &at(int i, int j) { return a[(size_t)i * n + j]; }
    const cld &at(int i, int j) const { return a[(size_t)i * n + j]; }
};

static inline ld absl_(cld v) { return std::hypot(v.real(), v.imag()); }
static inline ld abs1_(cld v) { return fabsl(v.real()) + fabsl(v.imag()); }
static inline ld gamma_k(long k, ld eps) { ld ke = (ld)k * eps; return ke < 1 ? ke / (1 - ke) : INFINITY; }
// effective unit roundoff of one arithmetic operation in the working precision
// (complex multiply/divide carry a larger constant: Higham, Accuracy and Stability, Lemma 3.5)
static inline ld eps_eff(int prec) { return prec_is_complex(prec) ? 4 * sqrtl(2.0L) * prec_eps(prec) : prec_eps(prec); }

Dense csc_to_dense(const Mat &M, const std::vector<cld> &vals); // D[i][j] = M(i,j) of the CSC view
Dense transpose(const Dense &A);
Dense conj_transpose(const Dense &A);
Dense conj_dense(const Dense &A);

struct RefInfo {
    bool singular = false;     // exact zero pivot in long-double GEPP
    ld cond1 = 0, condinf = 0; // ||A|| ||A^-1||
    ld norm1 = 0, norminf = 0;
    Dense inv;
};
RefInfo ref_analyse(const Dense &A, bool want_inverse);
// solve A X = B (nrhs columns, column-major n x nrhs) in long double with partial pivoting
bool ref_solve(const Dense &A, const std::vector<cld> &B, int nrhs, std::vector<cld> &X);
// true componentwise relative backward error of X per right-hand side (max_i |r_i| / (|A||x|+|b|)_i); optionally the smallest positive denominator
std::vector<ld> true_berr(const Dense &A, const std::vector<cld> &B, const std::vector<cld> &X, int nrhs, bool use_abs1 = false, std::vector<ld> *min_pos_den = nullptr);

// C09
void check_structure(const LUDump &d, const std::vector<int> &perm_r, const std::vector<int> &perm_c, std::vector<std::string> &errs);
bool is_perm(const std::vector<int> &p, int n);
// dense expansion of the returned factors (permuted coordinates); false if structure unusable
bool expand_LU(const LUDump &d, Dense &L, Dense &U);

struct FactorCheck {
    std::vector<std::string> errs_a, errs_b, errs_c; // C02 (a) reconstruction, (b) multiplier bound, (c) diagonal preference
    long tie_excluded = 0;   // (c) cases inside the rounding band
    long diag_checked = 0, diag_taken = 0, offdiag_pivots = 0;
    ld max_ratio_a = 0;      // max |PrMPc - LU| / (gamma_n |L||U|)  (informational)
    ld growth = 0;           // max|L||U| / max|M|
};
// Mdense = dense CSC view (the matrix actually factored), perm_r/perm_c as returned
void check_factor(const Dense &Md, const std::vector<int> &perm_r, const std::vector<int> &perm_c, const Dense &L, const Dense &U,
                  int prec, double u, bool usepr, bool check_diag, FactorCheck &out);

// C01: |B - Aeff X| <= gamma_{3n} E |X| (1+delta), E = Pr^T |L||U| Pc^T of the factored CSC view M
// (etrans: Aeff is a transpose / conjugate transpose of M, so E is transposed accordingly)
void check_solve(const Dense &Aeff, bool etrans, const std::vector<int> &perm_r, const std::vector<int> &perm_c, const Dense &L, const Dense &U,
                 const std::vector<cld> &B, const std::vector<cld> &X, int nrhs, int prec, std::vector<std::string> &errs, ld *max_ratio);

// componentwise relative backward error of X for op(A) X = B  (Oettli-Prager), per column

// structural rank of the leading k columns for every k (Hopcroft-Karp would be overkill at these sizes: augmenting paths)
// returns the smallest k (1-based) such that the first k columns (in the given column order) have structural rank < k, or 0
long first_struct_deficient(const Mat &M, const std::vector<int> &col_order);

// Symbolic elimination of the nonzero-value pattern following the library's own row choices: returns the first
// position j (0-based, in col_order) whose candidate set is structurally empty given the pivots of positions < j
// (an exact zero is then guaranteed in floating point), or -1.  perm_r entries that are not usable end the search.
long first_symbolic_empty(const Mat &nzpattern, const std::vector<int> &col_order, const std::vector<int> &perm_r);
