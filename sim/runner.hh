// Executes a Case under the simulator and evaluates every applicable oracle.
#pragma once
#include "case.hh"
#include "oracle.hh"
#include <functional>

struct RunnerOpts {
    bool verbose = false;
    bool record = true;          // keep decision logs in the outcome
    long baseline_steps = 0;     // E_serial of this configuration (0: unknown -> static budget)
    bool monitors = true;
    bool nested = false;         // a comparison run started from inside run_case
    // C18 split probes: called once, before operation number between_after + 1 of the first repetition (other library calls are made there)
    std::function<void()> between;
    int between_after = -1;
};

void runner_install();            // once per process (sim::install, die callback, fds)
Outcome run_case(Case &c, const RunnerOpts &ro);
J outcome_to_j(const Case &c, const Outcome &o, bool with_sched);

// result line helpers
std::string result_line(const Case &c, const Outcome &o);
