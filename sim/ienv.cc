// The harness's own sp_ienv(): the tuning-parameter seam (the archive member sp_ienv.o is never linked).
#include "slu_mt_ddefs.h"
extern long g_ienv[9];
extern "C" int_t sp_ienv(int_t ispec) {
    if (ispec >= 1 && ispec <= 8) return (int_t)g_ienv[ispec];
    return 0;
}
