#include "gen.hh"
#include <functional>
#include <map>
#include "oracle.hh"
#include <algorithm>
#include <set>
#include <cmath>

using sim::Rng;

cld round_prec(cld v, int prec) {
    if (prec_is_single(prec)) return cld((ld)(float)v.real(), prec_is_complex(prec) ? (ld)(float)v.imag() : 0);
    return cld((ld)(double)v.real(), prec_is_complex(prec) ? (ld)(double)v.imag() : 0);
}

// ------------------------------------------------------------------ patterns
enum Family { F_RANDOM = 0, F_BAND, F_ARROW, F_BLOCKDIAG, F_BLOCKTRI, F_GRID, F_DENSE, F_ZERODIAG, F_DENSEROWCOL, F_DIAGONAL, F_CHAINFOREST, F_COUNT };
static const char *family_names[] = {"random", "band", "arrow", "blockdiag", "blocktri", "grid", "dense", "zerodiag", "denserowcol", "diagonal", "chainforest"};

struct Pattern {
    int n = 0;
    std::vector<std::set<int>> col;   // rows of each column
    std::vector<int> transversal;     // row matched to each column (hidden perfect matching)
};

static std::vector<int> rand_perm(Rng &r, int n) {
    std::vector<int> p(n);
    for (int i = 0; i < n; ++i) p[i] = i;
    for (int i = n - 1; i > 0; --i) std::swap(p[i], p[r.below((uint64_t)i + 1)]);
    return p;
}

static void add_random(Rng &r, Pattern &P, int lo, int hi, double density) {
    int m = hi - lo;
    for (int j = lo; j < hi; ++j) for (int i = lo; i < hi; ++i) if (r.chance(density)) P.col[j].insert(i);
    (void)m;
}

static Pattern gen_pattern(Rng &r, int n, int fam) {
    Pattern P; P.n = n; P.col.resize(n); P.transversal.assign(n, -1);
    auto identity_transversal = [&]() { for (int j = 0; j < n; ++j) { P.col[j].insert(j); P.transversal[j] = j; } };
    switch (fam) {
    default:
    case F_RANDOM: {
        static const double dens[] = {0.02, 0.05, 0.1, 0.2, 0.4};
        double d = dens[r.below(5)];
        if (n <= 6) d = std::max(d, 0.2);
        add_random(r, P, 0, n, std::min(1.0, d + 1.0 / std::max(1, n)));
        std::vector<int> t = r.chance(0.5) ? rand_perm(r, n) : std::vector<int>();
        if (t.empty()) identity_transversal();
        else for (int j = 0; j < n; ++j) { P.col[j].insert(t[j]); P.transversal[j] = t[j]; }
        break;
    }
    case F_BAND: {
        int lo = (int)r.range(0, 3), up = (int)r.range(0, 3);
        if (lo + up == 0) lo = 1;
        for (int j = 0; j < n; ++j) for (int i = std::max(0, j - up); i <= std::min(n - 1, j + lo); ++i) if (i == j || r.chance(0.9)) P.col[j].insert(i);
        identity_transversal();
        break;
    }
    case F_ARROW: {
        identity_transversal();
        bool last = r.chance(0.6);
        int h = last ? n - 1 : 0;
        for (int j = 0; j < n; ++j) { if (r.chance(0.9)) P.col[j].insert(h); if (r.chance(0.9)) P.col[h].insert(j); }
        if (r.chance(0.3)) add_random(r, P, 0, n, 0.03);
        break;
    }
    case F_BLOCKDIAG: {
        identity_transversal();
        for (int s = 0; s < n;) { int w = (int)r.range(1, std::max(1, std::min(n - s, 2 + n / 4))); add_random(r, P, s, s + w, 0.5); s += w; }
        break;
    }
    case F_BLOCKTRI: {
        identity_transversal();
        for (int s = 0; s < n;) {
            int w = (int)r.range(1, std::max(1, std::min(n - s, 2 + n / 4)));
            add_random(r, P, s, s + w, 0.5);
            for (int j = s; j < s + w; ++j) for (int i = 0; i < s; ++i) if (r.chance(0.1)) P.col[j].insert(i);
            s += w;
        }
        break;
    }
    case F_GRID: {
        int k = std::max(1, (int)std::floor(std::sqrt((double)n)));
        identity_transversal();
        for (int a = 0; a < n; ++a) {
            int x = a % k, y = a / k;
            int nb[4] = {x > 0 ? a - 1 : -1, x < k - 1 ? a + 1 : -1, y > 0 ? a - k : -1, a + k};
            for (int b : nb) if (b >= 0 && b < n) { P.col[a].insert(b); }
        }
        break;
    }
    case F_DENSE: {
        for (int j = 0; j < n; ++j) for (int i = 0; i < n; ++i) if (r.chance(0.95)) P.col[j].insert(i);
        identity_transversal();
        break;
    }
    case F_ZERODIAG: {
        // transversal is a derangement-like permutation: the diagonal is structurally zero where possible
        std::vector<int> t(n);
        int shift = n > 1 ? (int)r.range(1, n - 1) : 0;
        for (int j = 0; j < n; ++j) t[j] = (j + shift) % n;
        for (int j = 0; j < n; ++j) { P.col[j].insert(t[j]); P.transversal[j] = t[j]; }
        for (int j = 0; j < n; ++j) for (int i = 0; i < n; ++i) if (i != j && r.chance(0.08)) P.col[j].insert(i);
        break;
    }
    case F_DENSEROWCOL: {
        identity_transversal();
        int nr = (int)r.range(0, 2), nc = (int)r.range(0, 2);
        for (int k = 0; k < nr; ++k) { int i = (int)r.below(n); for (int j = 0; j < n; ++j) P.col[j].insert(i); }
        for (int k = 0; k < nc; ++k) { int j = (int)r.below(n); for (int i = 0; i < n; ++i) P.col[j].insert(i); }
        add_random(r, P, 0, n, 0.03);
        break;
    }
    case F_DIAGONAL: {
        identity_transversal(); // empty off-diagonals
        if (r.chance(0.5)) for (int k = 0; k < n / 4; ++k) P.col[r.below(n)].insert((int)r.below(n));
        break;
    }
    case F_CHAINFOREST: {
        // several independent tridiagonal chains of different lengths (forest etree with long paths), coupled at the end
        identity_transversal();
        int s = 0;
        while (s < n) {
            int w = (int)r.range(2, std::max(2, std::min(n - s, 3 + n / 3)));
            w = std::min(w, n - s);
            for (int j = s; j + 1 < s + w; ++j) { P.col[j].insert(j + 1); P.col[j + 1].insert(j); }
            s += w;
        }
        if (r.chance(0.5) && n > 2) for (int j = 0; j < n - 1; ++j) if (r.chance(0.15)) { P.col[j].insert(n - 1); P.col[n - 1].insert(j); }
        break;
    }
    }
    return P;
}

static Mat pattern_to_mat(const Pattern &P) {
    Mat M; M.n = P.n; M.colptr.assign(P.n + 1, 0);
    for (int j = 0; j < P.n; ++j) {
        M.colptr[j] = (int)M.rowind.size();
        for (int i : P.col[j]) M.rowind.push_back(i);
    }
    M.colptr[P.n] = (int)M.rowind.size();
    M.val.assign(M.rowind.size(), cld(0, 0));
    return M;
}

// ------------------------------------------------------------------ values
enum ValClass { V_DOMINANT = 0, V_UNIFORM, V_GRADED, V_SMALLINT, V_PM1, V_BADSCALE, V_COUNT };
static const char *valclass_names[] = {"dominant", "uniform", "graded", "smallint", "pm1", "badscale"};

static cld rand_unit(Rng &r, bool cpx) {
    if (!cpx) return cld(r.chance(0.5) ? 1 : -1, 0);
    ld th = 6.283185307179586476925286766559L * (ld)r.unit();
    return cld(cosl(th), sinl(th));
}

std::vector<cld> gen_values(Rng &r, const Mat &M, int vc, int prec, const std::vector<int> &transversal) {
    bool cpx = prec_is_complex(prec);
    int n = M.n;
    std::vector<cld> v(M.rowind.size());
    std::vector<ld> rs(n, 1), cs(n, 1);
    bool exact_scale = false;
    if (vc == V_BADSCALE) {
        int mode = (int)r.below(3); // rows, cols, both
        // a third of the badly scaled matrices is exactly representable: entries of modulus 1 times powers of two, exponent 0
        // included, so that scale factors that are exactly 1.0 (and row/column maxima that are exactly 1.0) occur
        exact_scale = r.chance(0.33);
        static const int ex2[] = {-20, -10, -3, 0, 0, 3, 10, 20};
        for (int i = 0; i < n; ++i) {
            if (mode != 1) rs[i] = exact_scale ? ldexpl(1.0L, ex2[r.below(8)]) : powl(10.0L, (ld)r.range(-6, 6));
            if (mode != 0) cs[i] = exact_scale ? ldexpl(1.0L, ex2[r.below(8)]) : powl(10.0L, (ld)r.range(-6, 6));
        }
    }
    for (int j = 0; j < n; ++j) {
        ld colsum = 0;
        int tpos = -1;
        for (int k = M.colptr[j]; k < M.colptr[j + 1]; ++k) {
            int i = M.rowind[k];
            cld x;
            switch (vc) {
            default:
            case V_DOMINANT:
            case V_UNIFORM: x = rand_unit(r, cpx) * (ld)(0.05 + 0.95 * r.unit()); break;
            case V_GRADED: x = rand_unit(r, cpx) * powl(10.0L, (ld)(r.unit() * 8 - 4)); break;
            case V_SMALLINT: x = cld((ld)r.range(1, 4) * (r.chance(0.5) ? 1 : -1), cpx && r.chance(0.5) ? (ld)r.range(-3, 3) : 0); break;
            case V_PM1: x = cpx ? (r.chance(0.5) ? cld(r.chance(0.5) ? 1 : -1, 0) : cld(0, r.chance(0.5) ? 1 : -1)) : cld(r.chance(0.5) ? 1 : -1, 0); break;
            case V_BADSCALE:
                if (exact_scale) x = (cpx ? (r.chance(0.5) ? cld(r.chance(0.5) ? 1 : -1, 0) : cld(0, r.chance(0.5) ? 1 : -1)) : cld(r.chance(0.5) ? 1 : -1, 0)) * (r.chance(0.3) ? 0.5L : 1.0L) * rs[i] * cs[j];
                else x = rand_unit(r, cpx) * (ld)(0.1 + 0.9 * r.unit()) * rs[i] * cs[j];
                break;
            }
            v[k] = x;
            if (transversal.size() == (size_t)n && transversal[j] == i) tpos = k; else colsum += absl_(x);
        }
        if (tpos >= 0) {
            if (vc == V_DOMINANT) v[tpos] = rand_unit(r, cpx) * (colsum * (ld)(1.1 + r.unit()) + (ld)0.5);
            else if (vc == V_SMALLINT) v[tpos] = cld((ld)r.range(5, 9), 0);
        }
    }
    for (auto &x : v) x = round_prec(x, prec);
    return v;
}

// ------------------------------------------------------------------ schedules
void gen_sched(Rng &r, sim::SchedSpec &s, int nprocs, bool serial_baseline, const std::string &profile) {
    (void)profile;
    s = sim::SchedSpec();
    s.seed = r.next() | 1;
    if (serial_baseline) { s.strategy = sim::ST_SERIAL; s.yield_mask = ~0ULL; return; }
    int w = (int)r.below(100);
    if (w < 25) s.strategy = sim::ST_UNIFORM;
    else if (w < 55) { s.strategy = sim::ST_STICKY; static const double q[] = {0.5, 0.8, 0.95, 0.99}; s.sticky_q = q[r.below(4)]; }
    else if (w < 75) { s.strategy = sim::ST_PCT; s.pct_d = (int)r.range(1, 5); s.pct_len = r.range(50, 3000); }
    else if (w < 95) {
        s.strategy = sim::ST_STALL;
        static const int kinds[] = {4, 19, 24, 29, 6, 20, 22, 12, 7, 27, 28, 32};
        s.stall_kind = kinds[r.below(12)]; s.stall_k = (int)r.range(10, 300); s.stall_nth = (int)r.range(1, 25);
        static const double q[] = {0.3, 0.7, 0.9}; s.sticky_q = q[r.below(3)];
    } else s.strategy = sim::ST_SERIAL;
    if (r.chance(0.2)) s.delay_start = (int)r.range(1, 40);
    int m = (int)r.below(10);
    if (m < 3) s.yield_mask = ~0ULL;
    else if (m < 5) s.yield_mask = 0;            // mutex/create/join points only
    else s.yield_mask = r.next();
    (void)nprocs;
}

// ------------------------------------------------------------------ cases
static int pick_n(Rng &r, int tier) {
    int w = (int)r.below(100);
    if (tier == 0) {
        if (w < 8) return (int)r.range(1, 4);
        if (w < 60) return (int)r.range(5, 24);
        if (w < 95) return (int)r.range(25, 60);
        return (int)r.range(61, 90);
    }
    if (w < 5) return (int)r.range(1, 4);
    if (w < 40) return (int)r.range(5, 24);
    if (w < 80) return (int)r.range(25, 70);
    if (w < 97) return (int)r.range(71, 160);
    return (int)r.range(161, 400);
}

static void gen_tunables(Rng &r, long ienv[9], int n) {
    ienv[0] = 0;
    ienv[1] = r.chance(0.15) ? r.range(9, 20) : r.range(1, 8);   // panel size
    ienv[2] = r.chance(0.3) ? 1 : r.range(1, 8);                 // relax
    ienv[3] = r.chance(0.3) ? r.range(1, 4) : r.range(2, 32);    // maxsuper
    ienv[4] = r.range(1, 16);                                    // rowblk
    ienv[5] = r.range(1, 8);                                     // colblk
    ienv[6] = -50; ienv[7] = -50; ienv[8] = -30;
    // a relaxed supernode may have up to `relax` columns, so maxsuper < relax is a contradictory setting;
    // it is only generated in a small tagged slice (known finding D14)
    if (ienv[3] < ienv[2] && !r.chance(0.04)) ienv[3] = ienv[2] + r.range(0, 6);
    (void)n;
}

static void base_config(Rng &r, Case &c, const GenOpts &go, bool nonsingular) {
    c.prec = go.force_prec >= 0 ? go.force_prec : (int)r.below(4);
    int n = pick_n(r, go.tier);
    int fam = (int)r.below(F_COUNT);
    Pattern P = gen_pattern(r, n, fam);
    c.M = pattern_to_mat(P);
    c.family = family_names[fam];
    int vc = (int)r.below(V_COUNT);
    if (nonsingular && r.chance(0.3)) vc = V_DOMINANT;
    c.valclass = valclass_names[vc];
    c.values.push_back(gen_values(r, c.M, vc, c.prec, P.transversal));
    c.M.val = c.values[0];
    c.tags["valclass"] = vc; c.tags["family"] = fam;
    c.stype_nr = r.chance(0.3) ? 1 : 0;
    c.nrhs = r.chance(0.1) ? 0 : (int)r.range(1, 3);
    c.ldb = std::max(1, n + (r.chance(0.3) ? (int)r.range(1, 3) : 0));
    bool cpx = prec_is_complex(c.prec);
    std::vector<cld> b((size_t)c.ldb * c.nrhs);
    for (auto &x : b) x = round_prec(cld((ld)(r.unit() * 2 - 1), cpx ? (ld)(r.unit() * 2 - 1) : 0), c.prec);
    c.rhs.push_back(b);
    c.colperm = (int)r.below(5);
    if (c.colperm == 4) c.user_perm_c = rand_perm(r, n);
    c.transversal = P.transversal;
}

// generous estimate of the caller workspace a factorization of c needs with these tunables and up to P threads
static long generous_lwork(const Case &c, const long ienv[9], long P) {
    long n = c.M.n, nnz = c.M.nnz(), w = ienv[1];
    long need = 1300 * nnz + 24L * n * n + 600L * n + P * ((2 * w + 8) * n * 8 + (n * w + 2 * n + (ienv[3] + ienv[4]) * w) * 16 + 64) + 65536;
    return (2 * need) & ~7L;
}

static int pick_nprocs(Rng &r, int n) {
    int w = (int)r.below(100);
    if (w < 10) return 1;
    if (w < 70) return (int)r.range(2, 4);
    if (w < 92) return (int)r.range(5, 8);
    (void)n;
    return (int)r.range(9, 12);
}

// ---- every postordered forest on n nodes (children before parents, every subtree a contiguous range ending at its root)
static void forests_rec(int lo, int hi, int par, std::vector<int> &cur, std::vector<std::vector<int>> &out, const std::function<void()> &cont);
static void forests_rec(int lo, int hi, int par, std::vector<int> &cur, std::vector<std::vector<int>> &out, const std::function<void()> &cont) {
    (void)out;
    if (lo >= hi) { cont(); return; }
    for (int k = 1; k <= hi - lo; ++k) {          // first tree has k nodes, root lo+k-1
        int root = lo + k - 1;
        cur[root] = par;
        forests_rec(lo, root, root, cur, out, [&]() { forests_rec(root + 1, hi, par, cur, out, cont); });
    }
}
static const std::vector<std::vector<int>> &all_forests(int n) {
    static std::map<int, std::vector<std::vector<int>>> cache;
    auto it = cache.find(n);
    if (it != cache.end()) return it->second;
    std::vector<std::vector<int>> out; std::vector<int> cur(n, n);
    forests_rec(0, n, n, cur, out, [&]() { out.push_back(cur); });
    return cache[n] = out;
}

static Case gen_case_inner(const std::string &profile, uint64_t seed, const GenOpts &go) {
    Case c; c.profile = profile; c.seed = seed;
    uint64_t cfg_seed = sim::derive(0x5e1f00dULL + std::hash<std::string>()(profile) % 1000003ULL, seed / (uint64_t)go.S);
    Rng rc(cfg_seed), rs(sim::derive(seed, 0xabcdef));
    bool baseline = (seed % (uint64_t)go.S) == 0;

    if (profile == "ssv" || profile == "strf" || profile == "pipe" || profile == "term" || profile == "mem") {
        GenOpts g2 = go;
        base_config(rc, c, g2, true);
        int n = c.M.n;
        if (profile == "pipe") {
            // chain-like elimination trees, narrow panels: parents are taken with pipelining and wait on long chains
            static const int fams[] = {F_BAND, F_BAND, F_CHAINFOREST, F_CHAINFOREST, F_ARROW, F_GRID, F_BLOCKTRI, F_RANDOM};
            int fam = fams[rc.below(8)];
            if (n < 6) n = (int)rc.range(6, 40);
            Pattern P = gen_pattern(rc, n, fam);
            c.M = pattern_to_mat(P); c.family = family_names[fam]; c.transversal = P.transversal;
            int vc = (int)rc.below(V_COUNT); c.valclass = valclass_names[vc];
            c.values.clear(); c.values.push_back(gen_values(rc, c.M, vc, c.prec, P.transversal)); c.M.val = c.values[0];
            c.ldb = std::max(1, n); c.nrhs = 1; c.rhs.clear();
            std::vector<cld> b((size_t)c.ldb, cld(1, 0)); c.rhs.push_back(b);
            c.colperm = rc.chance(0.6) ? 0 : (int)rc.below(4); c.user_perm_c.clear();
        }
        OpSpec op;
        gen_tunables(rc, op.ienv, n);
        op.dyn_snode = rc.chance(profile == "mem" ? 0.4 : 0.12);
        op.x.nprocs = pick_nprocs(rc, n);
        if (profile == "pipe") { op.ienv[1] = rc.range(1, 3); op.ienv[2] = rc.range(1, 3); op.ienv[3] = std::max(op.ienv[3], op.ienv[2]); op.x.nprocs = (int)rc.range(2, 8); op.dyn_snode = false; }
        if (profile == "term") {
            int w = (int)rc.below(10);
            if (w < 3) op.x.nprocs = (int)rc.range(n + 1, n + 8) > 24 ? 24 : (int)rc.range(n + 1, n + 8);
            else if (w < 5) op.x.nprocs = (int)rc.range(12, 24);
            if (op.x.nprocs > 24) op.x.nprocs = 24;
        }
        op.x.panel_size = (int)op.ienv[1]; op.x.relax = (int)op.ienv[2];
        if (profile == "ssv") { op.kind = OP_GSSV; op.x.u = 1.0; }
        else {
            int e = (int)rc.below(10);
            op.kind = e < 6 ? OP_ROUTE : e < 8 ? OP_GSSV : OP_GSSVX;
            if (profile == "pipe") op.kind = OP_ROUTE;
            static const double us[] = {0.0, 1e-3, 0.1, 0.5, 1.0, 1.0};
            op.x.u = rc.chance(0.2) ? rc.unit() : us[rc.below(6)];
            if (op.kind == OP_GSSV) op.x.u = 1.0;
            op.x.fact = 0; op.x.trans = 0;
            if (op.kind == OP_GSSVX) op.x.trans = (int)rc.below(2);
        }
        if (profile == "mem" && rc.chance(0.25)) {
            // undersized tunables (fault): positive estimates that may be below the need
            long nnz = c.M.nnz();
            if (rc.chance(0.6)) op.ienv[7] = rc.range(1, std::max<long>(2, 2 * nnz));
            if (rc.chance(0.6)) op.ienv[8] = rc.range(1, std::max<long>(2, 3 * nnz));
            if (op.dyn_snode && rc.chance(0.5)) op.ienv[6] = rc.range(1, std::max<long>(2, 4 * nnz));
        }
        gen_sched(rs, op.sched, op.x.nprocs, baseline, profile);
        if (profile == "pipe" && !baseline && rs.chance(0.5)) {
            op.sched.strategy = sim::ST_STALL;
            static const int kinds[] = {4, 4, 24, 6, 27, 12};
            op.sched.stall_kind = rs.chance(0.3) ? (int)rs.range(3, 32) : kinds[rs.below(6)];   // mostly after "panel taken" / around the pivot, else at any hook kind
            op.sched.stall_k = (int)rs.range(20, 400); op.sched.stall_nth = (int)rs.range(1, 30);
            op.sched.sticky_q = 0.5;
        }
        if (profile == "term" && !baseline) {
            if (rs.chance(0.5)) op.sched.delay_start = (int)rs.range(1, 200);
            if (rs.chance(0.08)) op.faults.thread_create_fail = (int)rs.below((uint64_t)op.x.nprocs);
        }
        c.ops.push_back(op);
        return c;
    }
    if (profile == "tiny") {
        // enumerating profile: configuration (seed div S) = every 0/1 pattern with n <= 3 (quick) / n <= 4 (thorough); the items of a
        // configuration (seed mod S) aim the values at every pivot order in turn: the entry in row pi(j) of column j dominates column j
        int nmax = go.tier ? 4 : 3;
        uint64_t total = 0; for (int n = 1; n <= nmax; ++n) total += 1ULL << (n * n);
        uint64_t cfg = (seed / (uint64_t)go.S) % total; int n = 1;
        while (cfg >= (1ULL << (n * n))) { cfg -= 1ULL << (n * n); ++n; }
        uint64_t bits = cfg; int item = (int)(seed % (uint64_t)go.S);
        c.prec = go.force_prec >= 0 ? go.force_prec : (int)rc.below(4);
        bool cpx = prec_is_complex(c.prec);
        Pattern Pt; Pt.n = n; Pt.col.assign(n, {}); Pt.transversal.assign(n, -1);
        for (int j = 0; j < n; ++j) for (int i = 0; i < n; ++i) if ((bits >> (j * n + i)) & 1) Pt.col[j].insert(i);
        c.M = pattern_to_mat(Pt); c.family = "tiny_n" + std::to_string(n); c.tags["tiny_bits"] = (long)bits;
        // item -> permutation pi (items beyond n! use seeded values without a dominating entry)
        std::vector<int> pi(n); for (int i = 0; i < n; ++i) pi[i] = i;
        int nfact = 1; for (int i = 2; i <= n; ++i) nfact *= i;
        bool forced = item < nfact;
        if (forced) { int k = item; std::vector<int> pool = pi; for (int j = 0; j < n; ++j) { int f = 1; for (int i = 2; i < n - j; ++i) f *= i; int q = k / f; k %= f; pi[j] = pool[q]; pool.erase(pool.begin() + q); } }
        Rng rv(sim::derive(seed, 0x71f));
        std::vector<cld> v(c.M.rowind.size());
        for (int j = 0; j < n; ++j) for (int k = c.M.colptr[j]; k < c.M.colptr[j + 1]; ++k) {
            int i = c.M.rowind[k];
            ld mag = (ld)(0.25 + 0.75 * rv.unit());
            if (forced && i == pi[j]) mag *= 16.0L;
            cld x = cpx ? std::polar(mag, (ld)(rv.unit() * 6.283185307179586L)) : cld(rv.chance(0.5) ? mag : -mag, 0);
            v[k] = round_prec(x, c.prec);
        }
        c.values.push_back(v); c.M.val = v; c.valclass = forced ? "forced_pivot_order" : "uniform";
        c.transversal = Pt.transversal;
        c.stype_nr = (int)rv.below(2); c.nrhs = 1; c.ldb = n;
        std::vector<cld> b((size_t)n); for (auto &x : b) x = round_prec(cld((ld)(rv.unit() * 2 - 1), cpx ? (ld)(rv.unit() * 2 - 1) : 0), c.prec);
        c.rhs.push_back(b);
        c.colperm = (int)rv.below(4);
        OpSpec op;
        gen_tunables(rv, op.ienv, n);
        op.ienv[1] = rv.range(1, 3); op.ienv[2] = rv.range(1, 3); op.ienv[3] = std::max<long>(op.ienv[2], rv.range(1, 4));
        op.dyn_snode = rv.chance(0.1); op.x.nprocs = (int)rv.range(1, 3);
        op.x.panel_size = (int)op.ienv[1]; op.x.relax = (int)op.ienv[2];
        int e = (int)rv.below(10);
        op.kind = e < 5 ? OP_ROUTE : e < 8 ? OP_GSSV : OP_GSSVX;
        op.x.u = op.kind == OP_ROUTE && rv.chance(0.3) ? rv.unit() : 1.0;
        op.x.fact = 0; op.x.trans = op.kind == OP_GSSVX ? (int)rv.below(3) : 0;
        gen_sched(rs, op.sched, op.x.nprocs, item == 0, "ssv");
        c.ops.push_back(op);
        return c;
    }
    if (profile == "forest") {
        // enumerating profile: configuration (seed div S) walks through every postordered elimination forest with 1..nmax columns
        // x panel size 1..3 x relaxation 1..3 x 2..3 threads; the matrix has exactly that column elimination tree
        int nmax = go.tier ? 8 : 6;
        static std::vector<std::pair<int, int>> table; static int table_nmax = 0;   // (n, forest index)
        if (table_nmax != nmax) { table.clear(); for (int n = 1; n <= nmax; ++n) for (int f = 0; f < (int)all_forests(n).size(); ++f) table.push_back({n, f}); table_nmax = nmax; }
        uint64_t cfg = seed / (uint64_t)go.S;
        int P = 2 + (int)(cfg % 2); cfg /= 2;
        int w = 1 + (int)(cfg % 3); cfg /= 3;
        int relax = 1 + (int)(cfg % 3); cfg /= 3;
        auto nf = table[cfg % table.size()];
        int n = nf.first; const std::vector<int> &par = all_forests(n)[nf.second];
        c.prec = go.force_prec >= 0 ? go.force_prec : (int)rc.below(4);
        Pattern Pt; Pt.n = n; Pt.col.assign(n, {}); Pt.transversal.assign(n, 0);
        double extra = rc.chance(0.5) ? 0.0 : rc.unit() * 0.7;
        for (int j = 0; j < n; ++j) {
            Pt.col[j].insert(j); Pt.transversal[j] = j;
            if (par[j] < n) Pt.col[par[j]].insert(j);                       // row j: columns j and parent(j)
            for (int a = par[j]; a < n; a = par[a]) if (a != par[j] && rc.chance(extra)) Pt.col[a].insert(j);   // further ancestors keep the tree
        }
        c.M = pattern_to_mat(Pt); c.family = "forest_n" + std::to_string(n); c.transversal = Pt.transversal;
        c.tags["forest_id"] = nf.second; c.tags["forest_n"] = n;
        for (int j = 0; j < n; ++j) c.tags["forest_parent_" + std::to_string(j)] = par[j];
        int vc = (int)rc.below(V_COUNT); c.valclass = valclass_names[vc]; c.tags["valclass"] = vc;
        c.values.push_back(gen_values(rc, c.M, vc, c.prec, Pt.transversal)); c.M.val = c.values[0];
        c.stype_nr = 0; c.nrhs = 1; c.ldb = n; std::vector<cld> b((size_t)n, cld(1, 0)); c.rhs.push_back(b);
        c.colperm = 0;
        OpSpec op;
        gen_tunables(rc, op.ienv, n);
        op.ienv[1] = w; op.ienv[2] = relax; op.ienv[3] = std::max<long>(relax, rc.range(1, 6));
        op.dyn_snode = false; op.x.nprocs = P; op.x.panel_size = w; op.x.relax = relax;
        op.kind = rc.chance(0.8) ? OP_ROUTE : OP_GSSV;
        static const double us[] = {0.0, 0.1, 1.0, 1.0};
        op.x.u = op.kind == OP_GSSV ? 1.0 : us[rc.below(4)];
        op.x.fact = 0; op.x.trans = 0;
        gen_sched(rs, op.sched, P, baseline, "pipe");
        if (!baseline && rs.chance(0.3)) {
            op.sched.strategy = sim::ST_STALL;
            static const int kinds[] = {4, 4, 24, 6, 27, 12};
            op.sched.stall_kind = kinds[rs.below(6)]; op.sched.stall_k = (int)rs.range(5, 100); op.sched.stall_nth = (int)rs.range(1, 8);
            op.sched.sticky_q = 0.5;
        }
        if (!baseline && rs.chance(0.3)) op.sched.delay_start = (int)rs.range(1, 60);
        c.ops.push_back(op);
        return c;
    }
    if (profile == "sing") {
        base_config(rc, c, go, false);
        int n = c.M.n;
        if (n < 2) { n = (int)rc.range(2, 12); Pattern P0 = gen_pattern(rc, n, F_RANDOM); c.M = pattern_to_mat(P0); c.transversal = P0.transversal;
                     c.values.clear(); c.values.push_back(gen_values(rc, c.M, V_UNIFORM, c.prec, P0.transversal)); c.M.val = c.values[0]; c.family = "random";
                     c.ldb = n; std::vector<cld> b((size_t)c.ldb * c.nrhs, cld(1, 0)); c.rhs.clear(); c.rhs.push_back(b); if (c.colperm == 4) c.colperm = 0; c.user_perm_c.clear(); }
        // rebuild as column sets so that the pattern can be edited
        std::vector<std::vector<std::pair<int, cld>>> cols(n);
        for (int j = 0; j < n; ++j) for (int k = c.M.colptr[j]; k < c.M.colptr[j + 1]; ++k) cols[j].push_back({c.M.rowind[k], c.values[0][k]});
        int mode = (int)rc.below(100);
        auto pick_col = [&]() { return (int)rc.below(n); };
        std::string kind;
        if (mode < 22) { kind = "zero_column"; int cc = pick_col(); for (auto &e : cols[cc]) e.second = 0; }
        else if (mode < 36) { kind = "zero_row"; int r = pick_col(); for (auto &col : cols) for (auto &e : col) if (e.first == r) e.second = 0; }
        else if (mode < 44) { kind = "empty_column"; int cc = pick_col(); cols[cc].clear(); }
        else if (mode < 54) { kind = "empty_row"; int r = pick_col(); for (auto &col : cols) { std::vector<std::pair<int, cld>> k2; for (auto &e : col) if (e.first != r) k2.push_back(e); col = k2; } }
        else if (mode < 70) {
            kind = "hall_violation";
            int k = (int)rc.range(1, std::min(3, n - 1));
            std::vector<int> rows = rand_perm(rc, n); rows.resize(k); std::sort(rows.begin(), rows.end());
            std::vector<int> cs = rand_perm(rc, n); cs.resize(k + 1);
            for (int cc : cs) { cols[cc].clear(); for (int r : rows) if (rc.chance(0.8) || cols[cc].empty()) cols[cc].push_back({r, round_prec(cld((ld)(0.1 + rc.unit()), 0), c.prec)}); }
        } else if (mode < 76) {
            kind = "duplicate_column";
            int a = pick_col(), b = pick_col(); if (a == b) b = (a + 1) % n;
            cols[b] = cols[a]; for (auto &e : cols[b]) e.second = e.second * cld(2, 0);
        } else if (mode < 94) {
            kind = "two_zero_columns";
            int a = pick_col(), b = pick_col();
            for (auto &e : cols[a]) e.second = 0;
            for (auto &e : cols[b]) e.second = 0;
        } else kind = "nonsingular_control";
        c.family += "+" + kind;
        c.tags["sing_kind"] = mode;
        c.expect_singular = kind != "nonsingular_control";
        c.M.colptr.assign(1, 0); c.M.rowind.clear(); std::vector<cld> v;
        for (int j = 0; j < n; ++j) { for (auto &e : cols[j]) { c.M.rowind.push_back(e.first); v.push_back(e.second); } c.M.colptr.push_back((int)c.M.rowind.size()); }
        c.values.clear(); c.values.push_back(v); c.M.val = v; c.transversal.clear();
        OpSpec op;
        gen_tunables(rc, op.ienv, n);
        op.dyn_snode = false;
        op.x.nprocs = rc.chance(0.15) ? 1 : (int)rc.range(2, 8);
        op.x.panel_size = (int)op.ienv[1]; op.x.relax = (int)op.ienv[2];
        int e = (int)rc.below(10);
        op.kind = e < 5 ? OP_GSSV : e < 9 ? OP_GSSVX : OP_ROUTE;
        op.x.u = op.kind == OP_GSSV ? 1.0 : (rc.chance(0.5) ? 1.0 : rc.unit());
        if (op.kind == OP_GSSVX) { op.x.fact = rc.chance(0.4) ? 1 : 0; op.x.trans = (int)rc.below(3); if (!prec_is_complex(c.prec) && op.x.trans == 2) op.x.trans = 1; }
        gen_sched(rs, op.sched, op.x.nprocs, baseline, profile);
        if (kind == "two_zero_columns" && !baseline) {
            // which of two zero-pivot columns a thread meets first depends on the order in which it is handed panels: narrow regular panels
            // (no relaxation), several threads, one of them held back after taking a panel or after a pivot step
            Rng rz(sim::derive(seed, 0x2c01));
            if (rz.chance(0.6)) {
                op.x.nprocs = (int)rz.range(2, 4); op.ienv[2] = 1; op.x.relax = 1; op.ienv[1] = rz.range(1, 2); op.x.panel_size = (int)op.ienv[1];
                if (op.ienv[3] < 1) op.ienv[3] = 1;
                if (rz.chance(0.6)) { op.sched.strategy = sim::ST_STALL; static const int kinds[] = {4, 4, 24, 27}; op.sched.stall_kind = kinds[rz.below(4)]; op.sched.stall_k = (int)rz.range(10, 150); op.sched.stall_nth = (int)rz.range(1, 10); op.sched.sticky_q = 0.5; op.sched.yield_mask = ~0ULL; }
            }
        }
        c.ops.push_back(op);
        return c;
    }
    if (profile == "svx") {
        base_config(rc, c, go, true);
        int n = c.M.n;
        if (rc.chance(0.35)) {   // force equilibration outcomes
            c.values[0] = gen_values(rc, c.M, V_BADSCALE, c.prec, c.transversal); c.M.val = c.values[0]; c.valclass = "badscale"; c.tags["valclass"] = V_BADSCALE;
        }
        if (c.nrhs == 0 && rc.chance(0.7)) { c.nrhs = 1; }
        bool cpx = prec_is_complex(c.prec);
        c.rhs.clear();
        for (int k = 0; k < 2; ++k) { std::vector<cld> b((size_t)c.ldb * c.nrhs); for (auto &x : b) x = round_prec(cld((ld)(rc.unit() * 2 - 1), cpx ? (ld)(rc.unit() * 2 - 1) : 0), c.prec); c.rhs.push_back(b); }
        OpSpec op;
        gen_tunables(rc, op.ienv, n);
        op.dyn_snode = false;
        op.kind = OP_GSSVX;
        op.x.nprocs = rc.chance(0.15) ? 1 : (int)rc.range(2, 8);
        op.x.panel_size = (int)op.ienv[1]; op.x.relax = (int)op.ienv[2];
        op.x.u = rc.chance(0.7) ? (0.1 + 0.9 * rc.unit()) : (rc.chance(0.5) ? 1.0 : rc.unit());
        if (rc.chance(0.3)) op.x.u = 1.0;
        op.x.fact = rc.chance(0.6) ? 1 : 0;
        op.x.trans = (int)rc.below(3);
        if (rc.chance(0.3)) { op.x.lwork = generous_lwork(c, op.ienv, 8); op.x.work_align = rc.chance(0.5) ? 4 : 0; }
        gen_sched(rs, op.sched, op.x.nprocs, baseline, profile);
        c.ops.push_back(op);
        if (rc.chance(0.4)) {
            OpSpec o2 = op; o2.x.fact = 2; o2.x.trans = (int)rc.below(3); o2.rhs_id = 1; o2.x.nprocs = (int)rc.range(1, 4);
            gen_sched(rs, o2.sched, o2.x.nprocs, baseline, profile);
            c.ops.push_back(o2);
        }
        return c;
    }
    if (profile == "hist" || profile == "leak" || profile == "carry") {
        base_config(rc, c, go, true);
        int n = c.M.n;
        if (n > 70) { /* keep histories cheap */ }
        bool cpx = prec_is_complex(c.prec);
        int vc0 = (int)c.tags["valclass"];
        // genuinely different value sets on the same pattern
        for (int k = 1; k < 3; ++k) {
            int vc = rc.chance(0.6) ? vc0 : (int)rc.below(V_COUNT);
            if (vc == V_PM1 || vc == V_SMALLINT) vc = V_UNIFORM;
            c.values.push_back(gen_values(rc, c.M, vc, c.prec, c.transversal));
        }
        if (c.nrhs == 0) c.nrhs = 1;
        c.rhs.clear();
        for (int k = 0; k < 3; ++k) { std::vector<cld> b((size_t)c.ldb * c.nrhs); for (auto &x : b) x = round_prec(cld((ld)(rc.unit() * 2 - 1), cpx ? (ld)(rc.unit() * 2 - 1) : 0), c.prec); c.rhs.push_back(b); }
        bool expert = rc.chance(0.6);
        long ienv[9]; gen_tunables(rc, ienv, n);
        if (ienv[3] < ienv[2]) ienv[3] = ienv[2];
        long lwork = 0;
        if (rc.chance(0.3)) {
            // generous estimate of the need (C14 explores the boundary; here the workspace is meant to suffice)
            long nnz = c.M.nnz(), w = ienv[1], P = 6;
            long need = 1300 * nnz + 24L * n * n + 600L * n + P * ((2 * w + 8) * n * 8 + (n * w + 2 * n + (ienv[3] + ienv[4]) * w) * 16 + 64) + 65536;
            lwork = 2 * need + 8 * (long)rc.below(64);
        }
        int align = lwork ? (rc.chance(0.5) ? 4 : 0) : 0;
        int nops = (int)rc.range(1, 5);
        auto mk = [&](int kind) {
            OpSpec op; for (int i = 0; i < 9; ++i) op.ienv[i] = ienv[i];
            op.kind = kind; op.x.panel_size = (int)ienv[1]; op.x.relax = (int)ienv[2];
            op.x.nprocs = rc.chance(0.2) ? 1 : (int)rc.range(2, 6);
            op.x.lwork = lwork; op.x.work_align = align;
            static const double us[] = {0.0, 0.1, 0.5, 1.0, 1.0};
            op.x.u = rc.chance(0.2) ? rc.unit() : us[rc.below(5)];
            gen_sched(rs, op.sched, op.x.nprocs, baseline, profile);
            return op;
        };
        int cur_vals = 0;
        bool leak = profile == "leak";
        if (leak) {
            // a fourth value set that is exactly singular (explicit zero column): error return with factors handed back
            std::vector<cld> sv = c.values[0];
            int zc = (int)rc.below(n);
            for (int k = c.M.colptr[zc]; k < c.M.colptr[zc + 1]; ++k) sv[k] = cld(0, 0);
            c.values.push_back(sv);
        }
        auto error_ops = [&]() {   // calls that return early; only issued while no factors exist
            if (!leak) return;
            if (expert && rc.chance(0.5)) { OpSpec q = mk(OP_GSSVX); q.values_id = cur_vals; q.x.fact = 0; q.x.lwork = -1; q.x.trans = 0; c.ops.push_back(q); }
            if (expert && rc.chance(0.3)) { OpSpec q = mk(OP_GSSVX); q.values_id = cur_vals; q.x.nprocs = 0; q.x.fact = 0; c.ops.push_back(q); }
            if (expert && rc.chance(0.3)) { OpSpec q = mk(OP_GSSVX); q.values_id = cur_vals; q.x.fact = 0; q.x.trans = 0; q.x.lwork = 8 * (long)rc.range(1, 400); q.x.work_align = 0; c.tags["tiny_workspace_ops"]++; c.ops.push_back(q);
                                             OpSpec d = mk(OP_DESTROY); d.values_id = cur_vals; d.x.lwork = q.x.lwork; c.ops.push_back(d); }
            if (rc.chance(0.25)) {   // singular matrix: info in 1..n, then destroy what was returned
                OpSpec sg = mk(expert ? OP_GSSVX : OP_ROUTE); sg.values_id = 3; sg.x.fact = 0; sg.x.trans = 0; sg.x.refact = 0; sg.x.usepr = 0; sg.x.u = 1.0; c.ops.push_back(sg);
                OpSpec d = mk(OP_DESTROY); d.values_id = 3; c.ops.push_back(d);
                if (!expert) { OpSpec f = mk(OP_ROUTE_FINALIZE); f.values_id = 3; c.ops.push_back(f); }
            }
        };
        error_ops();
        auto first = [&]() {
            OpSpec op = mk(expert ? OP_GSSVX : OP_ROUTE);
            op.values_id = cur_vals; op.rhs_id = (int)rc.below(3);
            op.x.fact = expert ? (rc.chance(0.5) ? 1 : 0) : 0; op.x.trans = (int)rc.below(expert ? 3 : 2); op.x.refact = 0; op.x.usepr = 0;
            c.ops.push_back(op);
        };
        first();
        for (int k = 0; k < nops; ++k) {
            int w = (int)rc.below(100);
            if (w < 45) {           // refactor with new values
                OpSpec op = mk(expert ? OP_GSSVX : OP_ROUTE);
                cur_vals = (cur_vals + 1 + (int)rc.below(2)) % 3;
                op.values_id = cur_vals; op.rhs_id = (int)rc.below(3);
                op.x.fact = expert ? c.ops[0].x.fact : 0; op.x.trans = (int)rc.below(expert ? 3 : 2); op.x.refact = 1; op.x.usepr = rc.chance(0.5) ? 1 : 0;
                c.ops.push_back(op);
            } else if (w < 80) {    // solve with existing factors
                OpSpec op = mk(expert ? OP_GSSVX : OP_GSTRS);
                op.values_id = cur_vals; op.rhs_id = (int)rc.below(3); op.x.fact = 2; op.x.trans = (int)rc.below(expert ? 3 : 2); op.x.nprocs = (int)rc.range(1, 3);
                c.ops.push_back(op);
            } else {                // destroy, then a first-time factorization again
                OpSpec d = mk(OP_DESTROY); d.values_id = cur_vals; c.ops.push_back(d);
                if (!expert) { OpSpec f = mk(OP_ROUTE_FINALIZE); f.values_id = cur_vals; c.ops.push_back(f); }
                cur_vals = (int)rc.below(3);
                error_ops();
                first();
            }
        }
        if (profile != "hist") {   // leak / carry profiles end by giving everything back
            OpSpec d = mk(OP_DESTROY); d.values_id = cur_vals; c.ops.push_back(d);
            if (!expert) { OpSpec f = mk(OP_ROUTE_FINALIZE); f.values_id = cur_vals; c.ops.push_back(f); }
        }
        {   // histories that start from an exactly singular first factorization (info in 1..n, factors and perm_r handed back) and
            // then refactorize with nonsingular values, with or without pivot reuse: the perm_r the refactorization receives may name
            // rows that are not in the structure of their column (found as D31).  Drawn from a stream of its own so that the
            // other histories of this profile keep their seeds.
            Rng rx(sim::derive(seed, 0x51b9));
            if (rx.chance(0.2)) {
                int kind = (int)rx.below(3);
                std::vector<cld> sv = c.values[0];
                int z = (int)rx.below(n);
                if (kind == 0) { for (int k = c.M.colptr[z]; k < c.M.colptr[z + 1]; ++k) sv[k] = cld(0, 0); }                   // zero column
                else if (kind == 1) { for (size_t k = 0; k < sv.size(); ++k) if (c.M.rowind[k] == z) sv[k] = cld(0, 0); }        // zero row
                else {                                                                                                           // two equal columns (where the patterns allow) else zero column
                    int z2 = (z + 1) % n; bool same = n > 1 && c.M.colptr[z + 1] - c.M.colptr[z] == c.M.colptr[z2 + 1] - c.M.colptr[z2];
                    for (int k = 0; same && k < c.M.colptr[z + 1] - c.M.colptr[z]; ++k) if (c.M.rowind[c.M.colptr[z] + k] != c.M.rowind[c.M.colptr[z2] + k]) same = false;
                    if (same && n > 1) for (int k = 0; k < c.M.colptr[z + 1] - c.M.colptr[z]; ++k) sv[c.M.colptr[z2] + k] = sv[c.M.colptr[z] + k];
                    else for (int k = c.M.colptr[z]; k < c.M.colptr[z + 1]; ++k) sv[k] = cld(0, 0);
                }
                int sid = (int)c.values.size(); bool used = false;
                for (size_t i = 0; i + 1 < c.ops.size(); ++i) {
                    OpSpec &f = c.ops[i];
                    bool first_time = (f.kind == OP_GSSVX && f.x.fact != 2 && !f.x.refact && f.x.lwork >= 0 && f.x.nprocs > 0 && f.values_id < 3) || (f.kind == OP_ROUTE && !f.x.refact && f.values_id < 3);
                    if (!first_time || (f.x.lwork > 0 && f.x.lwork < 100000)) continue;
                    // is the next factorizing operation a refactorization?
                    for (size_t k = i + 1; k < c.ops.size(); ++k) {
                        OpSpec &g = c.ops[k];
                        if (g.kind == OP_DESTROY) break;
                        if ((g.kind == OP_GSSVX || g.kind == OP_ROUTE) && g.x.refact) {
                            f.values_id = sid; f.x.u = 1.0; used = true; c.tags["singular_first_then_refact"]++;
                            // the interesting layouts come from pipelined panels (rows of busy descendants are added to every column of
                            // the waiting panel, p?gstrf_panel_bmod.c), i.e. several threads with one of them held back; the refactorization
                            // mostly asks for pivot reuse with a threshold that any nonzero old pivot passes
                            if (!baseline) {
                                f.x.nprocs = (int)rx.range(2, 4);
                                if (rx.chance(0.6)) { f.sched.strategy = sim::ST_STALL; static const int kinds[] = {4, 24, 27, 6}; f.sched.stall_kind = kinds[rx.below(4)]; f.sched.stall_k = (int)rx.range(10, 120); f.sched.stall_nth = (int)rx.range(1, 12); f.sched.sticky_q = 0.5; f.sched.yield_mask = ~0ULL; }
                            }
                            if (rx.chance(0.8)) { g.x.usepr = 1; g.x.u = rx.chance(0.7) ? 0.0 : 0.01; }
                            if (rx.chance(0.5)) g.x.nprocs = 1;
                            // operations in between reuse the factors of f (they run only if rounding left no exact zero pivot): same values
                            for (size_t q = i + 1; q < k; ++q) c.ops[q].values_id = sid;
                            break;
                        }
                    }
                    if (used) break;
                }
                if (used) c.values.push_back(sv);
            }
        }
        return c;
    }
    if (profile == "alloc") {
        // enumerating profile: configuration = seed / S, item = seed % S
        GenOpts g2 = go; g2.tier = 0;
        base_config(rc, c, g2, true);
        int n = c.M.n;
        if (n > 48 || n < 2) {
            n = (int)rc.range(2, 48); int fam = (int)rc.below(F_COUNT); Pattern P = gen_pattern(rc, n, fam);
            c.M = pattern_to_mat(P); c.family = family_names[fam]; c.transversal = P.transversal;
            c.values.clear(); c.values.push_back(gen_values(rc, c.M, V_DOMINANT, c.prec, P.transversal)); c.M.val = c.values[0]; c.valclass = "dominant"; c.tags["valclass"] = V_DOMINANT;
            c.ldb = n; if (c.nrhs == 0) c.nrhs = 1; c.rhs.clear(); std::vector<cld> b((size_t)c.ldb * c.nrhs, cld(1, 0)); c.rhs.push_back(b);
            if (c.colperm == 4) c.colperm = 1; c.user_perm_c.clear();
        }
        if (c.nrhs == 0) { c.nrhs = 1; c.rhs[0].assign((size_t)c.ldb, cld(1, 0)); }
        OpSpec op;
        gen_tunables(rc, op.ienv, n);
        if (op.ienv[3] < op.ienv[2]) op.ienv[3] = op.ienv[2];
        op.dyn_snode = false;
        op.x.nprocs = (int)rc.range(1, 4);
        op.x.panel_size = (int)op.ienv[1]; op.x.relax = (int)op.ienv[2];
        // two-call configurations (drawn from a stream of their own): a fault-free first factorization through the expert driver, then the
        // call under test is a re-factorization (new values, pivot reuse or not, often more threads) or a solve that reuses the factors
        Rng rt(sim::derive(seed / (uint64_t)go.S, 0x2095));
        bool two = rt.chance(0.4);
        int second_kind = rt.chance(0.65) ? 1 : 2, p2 = (int)rt.range(1, 4), tr2 = (int)rt.below(2);
        if ((long)(seed % (uint64_t)go.S) == 1) second_kind = 1;   // a workspace query exists for factorizing calls only (p?gssvx ignores lwork when fact = FACTORED)
        bool usepr2 = rt.chance(0.5), more_threads = rt.chance(0.6);
        bool expert = rc.chance(0.6) || two;
        op.kind = expert ? OP_GSSVX : OP_GSSV;
        op.x.u = 1.0; op.x.fact = expert ? (rc.chance(0.5) ? 1 : 0) : 0; op.x.trans = expert ? (int)rc.below(2) : 0;
        long item = (long)(seed % (uint64_t)go.S);
        c.tags["alloc_item"] = item;
        gen_sched(rs, op.sched, op.x.nprocs, item == 0, profile);
        long K = std::max(1L, go.alloc_K);
        long nfault = std::min<long>(go.S - 3 - 36, 2 * K + 16);
        if (item == 0) c.tags["alloc_mode"] = 0;                       // fault-free baseline
        else if (item == 1) { c.tags["alloc_mode"] = 1; if (expert) op.x.lwork = -1; }   // workspace query
        else if (item == 2) { c.tags["alloc_mode"] = 2; if (expert) { op.x.lwork = go.lwork_sufficient > 0 ? go.lwork_sufficient : (8L << 20); op.x.work_align = rc.chance(0.5) ? 4 : 0; } }
        else if (item - 3 < nfault) {
            long j = item - 3; int mode = (int)(j % 2); long k = j / 2 + 1;
            long kslots = nfault / 2;
            if (K > kslots) {
                // more requests than items: the first third of the items takes k = 1, 2, ..., the rest is spread evenly (with seeded jitter)
                // over the remaining requests, so that late requests (per-thread work arrays, L/U arrays) are reached in the quick tier too
                long head = kslots / 3;
                if (k > head) { long idx = k - head - 1, rest = kslots - head; k = head + 1 + (long)(((double)idx + rs.unit()) * (double)(K - head) / (double)rest); if (k > K) k = K; }
            }
            if (k > K) k = 1 + (long)rs.below((uint64_t)K);
            if (mode == 0) op.faults.alloc_fail_from = k; else op.faults.alloc_fail_only = k;
            c.tags["alloc_mode"] = 3 + mode; c.tags["alloc_k"] = k;
        } else {
            // caller workspace sizes: boundaries of the sufficient run +- one word, and seeded sizes
            c.tags["alloc_mode"] = 5;
            long j = item - 3 - nfault;
            long lw = 0;
            long slots = go.S - 3 - nfault, nb = std::max<long>(1, (slots - 12) / 3);
            if (!go.bounds.empty() && j < 3 * nb) {
                // boundaries spread over the whole list, always including the peak
                long bi = std::min<long>((long)go.bounds.size() - 1, (j / 3 + 1) * (long)go.bounds.size() / nb - 1);
                if (bi < 0) bi = 0;
                // two-call configurations: the boundaries above the factors' own storage (per-thread working arrays of the second call) are the interesting ones
                if (two) bi = (long)go.bounds.size() / 2 + bi / 2;
                lw = go.bounds[bi] + (j % 3 - 1) * 8 + (j % 3 == 2 ? 8 : 0);
            }
            else {
                long suff = go.lwork_sufficient > 0 ? go.lwork_sufficient : (1L << 20);
                // geometric ladder below the sufficient size: reaches the halving retries of the initial allocation
                static const double frac[] = {0.7, 0.5, 0.35, 0.25, 0.18, 0.12, 0.09, 0.06, 0.045, 0.03, 0.02, 0.012};
                long jj = j - 3 * nb;
                if (jj >= 0 && jj < 12 && rs.chance(0.7)) lw = (long)(suff * frac[jj] * (0.9 + 0.2 * rs.unit()));
                else lw = 1 + (long)rs.below((uint64_t)suff);
            }
            if (two && go.first_call_peak > 0 && !go.bounds.empty() && rs.chance(0.7)) {
                // the window in which the first call just fits and the second one (more threads, new working arrays) may not
                long p0 = go.first_call_peak, p1 = std::max(p0, go.bounds.back());
                lw = p0 + 8 + (long)((double)(p1 - p0 + 64) * 1.05 * rs.unit());
            }
            // the TAIL end of the workspace is not aligned by the library: a length that is not a multiple of the word size
            // would misalign its own integer arrays, which no documented precondition allows
            lw &= ~7L;
            if (lw < 8) lw = 8;
            op.kind = OP_GSSVX; op.x.fact = expert ? op.x.fact : 0;
            op.x.lwork = lw; op.x.work_align = rs.chance(0.5) ? 4 : 0;
            c.tags["alloc_lwork"] = lw;
        }
        if (two) {
            OpSpec first = op;
            first.faults = sim::FaultPlan(); first.x.refact = 0; first.x.usepr = 0; first.values_id = 0;
            if (op.x.lwork == -1) { first.x.lwork = 0; first.x.work_align = 0; }       // the query is the second call
            Rng rs1(sim::derive(seed, 0x2096));
            gen_sched(rs1, first.sched, first.x.nprocs, item == 0, profile);
            if (second_kind == 1) {
                c.values.push_back(gen_values(rt, c.M, V_DOMINANT, c.prec, c.transversal));
                op.x.refact = 1; op.x.usepr = usepr2 ? 1 : 0; op.values_id = 1; op.x.fact = first.x.fact;
                op.x.nprocs = more_threads ? std::min(6, first.x.nprocs + (int)rt.range(1, 3)) : p2;
            } else {
                op.x.fact = 2; op.x.trans = tr2; op.values_id = 0; op.x.nprocs = std::min(2, p2);
            }
            c.tags["alloc_two_call"] = second_kind;
            c.ops.push_back(first);
        }
        c.ops.push_back(op);
        return c;
    }
    if (profile == "sym" || profile == "symleak") {
        c.prec = go.force_prec >= 0 ? go.force_prec : (int)rc.below(4);
        int n = pick_n(rc, go.tier); if (n < 2) n = (int)rc.range(2, 20);
        static const int fams[] = {F_RANDOM, F_BAND, F_ARROW, F_GRID, F_BLOCKDIAG, F_DENSEROWCOL, F_BLOCKTRI, F_CHAINFOREST, F_DENSE};
        int fam = fams[rc.below(9)];
        Pattern P = gen_pattern(rc, n, fam);
        for (int j = 0; j < n; ++j) P.col[j].insert(j);                       // full diagonal
        bool symm = rc.chance(0.5);
        if (symm) for (int j = 0; j < n; ++j) for (int i : std::set<int>(P.col[j])) P.col[i].insert(j);
        for (int j = 0; j < n; ++j) P.transversal[j] = j;
        c.M = pattern_to_mat(P); c.family = std::string(family_names[fam]) + (symm ? "+symmetrized" : "+unsymmetric"); c.transversal = P.transversal;
        bool cpx = prec_is_complex(c.prec);
        // row- and column-diagonally dominant values
        std::vector<cld> v(c.M.rowind.size());
        std::vector<ld> rsum(n, 0), csum(n, 0);
        for (int j = 0; j < n; ++j) for (int k = c.M.colptr[j]; k < c.M.colptr[j + 1]; ++k) {
            int i = c.M.rowind[k]; if (i == j) continue;
            cld x = rand_unit(rc, cpx) * (ld)(0.05 + 0.95 * rc.unit()) * (rc.chance(0.2) ? 100.0L : 1.0L);
            v[k] = x; rsum[i] += absl_(x); csum[j] += absl_(x);
        }
        for (int j = 0; j < n; ++j) for (int k = c.M.colptr[j]; k < c.M.colptr[j + 1]; ++k) if (c.M.rowind[k] == j)
            v[k] = rand_unit(rc, cpx) * ((rsum[j] + csum[j]) * (ld)(1.1 + rc.unit()) + (ld)0.5);
        for (auto &x : v) x = round_prec(x, c.prec);
        c.values.push_back(v); c.M.val = v; c.valclass = "row_and_column_dominant";
        c.stype_nr = rc.chance(0.2) ? 1 : 0;
        c.nrhs = (int)rc.range(1, 2); c.ldb = n;
        std::vector<cld> b((size_t)c.ldb * c.nrhs); for (auto &x : b) x = round_prec(cld((ld)(rc.unit() * 2 - 1), cpx ? (ld)(rc.unit() * 2 - 1) : 0), c.prec);
        c.rhs.push_back(b);
        c.colperm = rc.chance(0.85) ? 2 : (int)rc.below(4);   // MMD on A^T+A is the documented set-up; others are co-observed
        OpSpec op;
        gen_tunables(rc, op.ienv, n);
        if (op.ienv[3] < op.ienv[2]) op.ienv[3] = op.ienv[2];
        op.dyn_snode = false;
        op.kind = OP_GSSVX; op.x.sym_mode = 1; op.x.u = 0.0; op.x.fact = rc.chance(0.3) ? 1 : 0; op.x.trans = (int)rc.below(2);
        op.x.nprocs = rc.chance(0.15) ? 1 : (int)rc.range(2, 8);
        op.x.panel_size = (int)op.ienv[1]; op.x.relax = (int)op.ienv[2];
        gen_sched(rs, op.sched, op.x.nprocs, baseline, profile);
        if (profile == "symleak") {
            // C17 in symmetric mode: optional workspace query first, optional reuse / refactorization after, then the destroy call
            if (rc.chance(0.3)) { OpSpec q = op; q.x.lwork = -1; q.x.fact = 0; q.x.trans = 0; gen_sched(rs, q.sched, q.x.nprocs, baseline, profile); c.ops.push_back(q); }
            c.ops.push_back(op);
            if (rc.chance(0.4)) { OpSpec f = op; f.x.fact = 2; f.x.trans = (int)rc.below(3); f.x.nprocs = (int)rc.range(1, 3); gen_sched(rs, f.sched, f.x.nprocs, baseline, profile); c.ops.push_back(f); }
            if (rc.chance(0.3)) { OpSpec f = op; f.x.refact = 1; gen_sched(rs, f.sched, f.x.nprocs, baseline, profile); c.ops.push_back(f); }
            OpSpec d = op; d.kind = OP_DESTROY; gen_sched(rs, d.sched, d.x.nprocs, baseline, profile); c.ops.push_back(d);
            return c;
        }
        c.ops.push_back(op);
        return c;
    }
    // unknown profile: empty case
    return c;
}

// Right-hand sides with exact zeros (a fourth of the cases of the solving profiles; the configuration stream is not touched, so the
// other cases of a profile keep their seeds): scattered zeros, a zero leading block, or a single unit vector.  With reducible
// matrices the solution then has exactly zero components too, which the solves and the refinement treat on paths of their own.
Case gen_case(const std::string &profile, uint64_t seed, const GenOpts &go) {
    Case c = gen_case_inner(profile, seed, go);
    static const char *solving[] = {"ssv", "svx", "hist", "leak", "sym", "symleak", "carry", "strf"};
    bool apply = false; for (auto p : solving) if (profile == p) apply = true;
    if (!apply || c.nrhs <= 0 || c.M.n < 2) return c;
    Rng rb(sim::derive(seed / (uint64_t)go.S, 0xb5e0));
    bool reducible = c.family.find("block") != std::string::npos || c.family.find("forest") != std::string::npos;
    if (!rb.chance(reducible ? 0.5 : 0.25)) return c;
    int n = c.M.n, mode = (int)rb.below(3);
    for (auto &b : c.rhs) {
        if ((int)b.size() < c.ldb * c.nrhs) continue;
        for (int j = 0; j < c.nrhs; ++j) {
            int lead = (int)rb.range(1, n - 1), unit = (int)rb.below(n);
            for (int i = 0; i < n; ++i) {
                cld &x = b[(size_t)j * c.ldb + i];
                if (mode == 0) { if (rb.chance(0.6)) x = cld(0, 0); }
                else if (mode == 1) { if (i < lead) x = cld(0, 0); }
                else x = i == unit ? cld(1, 0) : cld(0, 0);
            }
        }
    }
    c.tags["sparse_rhs"] = mode + 1;
    return c;
}
