// Deterministic scheduler core: real threads, one baton.
#include "sim.hh"
#include <pthread.h>
#include <semaphore.h>
#include <unistd.h>
#include <errno.h>
#include <string.h>
#include <stdio.h>
#include <stdlib.h>
#include <execinfo.h>
#include <dlfcn.h>
#include <fcntl.h>
#include <sys/stat.h>
#include <time.h>
#include <algorithm>
#include <unordered_map>

extern "C" {
int __real_pthread_create(pthread_t *, const pthread_attr_t *, void *(*)(void *), void *);
int __real_pthread_join(pthread_t, void **);
void __real_pthread_exit(void *) __attribute__((noreturn));
int __real_pthread_mutex_init(pthread_mutex_t *, const pthread_mutexattr_t *);
int __real_pthread_mutex_destroy(pthread_mutex_t *);
int __real_pthread_mutex_lock(pthread_mutex_t *);
int __real_pthread_mutex_unlock(pthread_mutex_t *);
void *__real_malloc(size_t);
void *__real_calloc(size_t, size_t);
void *__real_realloc(void *, size_t);
void __real_free(void *);
void __real_exit(int) __attribute__((noreturn));
typedef void (*slu_mt_verif_hook_t)(int, long, long, long, long, const void *);
extern slu_mt_verif_hook_t slu_mt_verif_hook;
}

// event kinds the core needs to know (must match SRC/slu_mt_verif.h)
enum { EV_SPIN = 1, EV_INIT = 2, EV_SCHED_ENTER = 3, EV_SCHED_CS = 4, EV_NEW_SUPER = 19, EV_SUPER_OPEN = 20, EV_ALLOC = 22 };
// pseudo kinds for yield points that are not hook events
enum { YP_LOCK = 40, YP_UNLOCK = 41, YP_CREATE = 42, YP_JOIN = 43, YP_START = 44 };

namespace sim {

std::function<std::string(int, const std::string &)> on_die;
int result_fd = -1;
int stderr_capture_fd = -1;
event_cb_t event_cb = nullptr;
int trace_fd = -1;

namespace {

enum TState { T_FREE = 0, T_RUNNABLE, T_BLK_MUTEX, T_BLK_SPIN, T_BLK_JOIN, T_IDLE_POLL, T_FINISHED };

struct Task {
    int id = 0;
    pthread_t os{};
    bool has_os = false;
    sem_t sem;
    TState st = T_FREE;
    void *(*fn)(void *) = nullptr;
    void *arg = nullptr;
    void *ret = nullptr;
    int wait_mutex = -1;
    const volatile int *spin = nullptr;
    int join_target = -1;
    bool joined = false;
    bool started = false;
    bool polled_empty = false;
    long poll_epoch = -1;
    long pnum = -1;
    long prio = 0;
    int omp_id = 0;
};

struct MutexRec { const void *addr; int owner; };

struct State {
    bool active = false;
    RunConfig cfg;
    Rng rng;
    std::vector<Task *> pool;   // pool[0] = main
    int ntasks = 0;
    int cur = 0;
    std::vector<MutexRec> mutexes;
    const void *sched_lock = nullptr;
    const void *tasks_remain_ptr = nullptr;
    int tasks_remain_width = 4;
    long sched_epoch = 0;
    RunStats st;
    std::vector<long> change_points;
    long low_prio = 0;
    int stall_victim = -1;
    long stall_until = -1;
    int stall_seen = 0;
    int creates = 0;
    int omp_team = 0;          // > 0 while inside a simulated OpenMP parallel region
} g;

// ---- allocator accounting
struct AllocRec { size_t size; long seq; const void *site; };
std::unordered_map<void *, AllocRec> *live = nullptr;
bool alloc_armed = false;
long alloc_seq = 0;       // requests in the current armed window
long alloc_total_seq = 0; // monotone id
bool want_sites = true;

inline bool spin_clear(const Task &t) { return *t.spin == 0; }

int find_mutex(const void *addr) {
    for (size_t i = 0; i < g.mutexes.size(); ++i)
        if (g.mutexes[i].addr == addr) return (int)i;
    return -1;
}
int get_mutex(const void *addr) {
    int i = find_mutex(addr);
    if (i < 0) { g.mutexes.push_back({addr, -1}); i = (int)g.mutexes.size() - 1; }
    return i;
}

// classify task t: 2 = enabled, 1 = weak (idle poller with unchanged epoch), 0 = not
int classify(const Task &t) {
    switch (t.st) {
    case T_RUNNABLE: return 2;
    case T_BLK_MUTEX: return g.mutexes[t.wait_mutex].owner < 0 ? 2 : 0;
    case T_BLK_SPIN: return spin_clear(t) ? 2 : 0;
    case T_BLK_JOIN: return g.pool[t.join_target]->st == T_FINISHED ? 2 : 0;
    case T_IDLE_POLL: return g.sched_epoch != t.poll_epoch ? 2 : 1;
    default: return 0;
    }
}

bool admitted(const Task &t) {
    if (t.started || g.cfg.sched.delay_start <= 0) return true;
    return g.st.decisions >= (long)g.cfg.sched.delay_start * t.id;
}

std::string describe_blocked() {
    std::string s;
    char buf[128];
    for (int i = 0; i < g.ntasks; ++i) {
        Task &t = *g.pool[i];
        const char *nm[] = {"free", "runnable", "mutex", "spin", "join", "idlepoll", "finished"};
        snprintf(buf, sizeof buf, "t%d(p%ld):%s", i, t.pnum, nm[t.st]);
        s += buf;
        if (t.st == T_BLK_MUTEX) { snprintf(buf, sizeof buf, "[m%d owner t%d]", t.wait_mutex, g.mutexes[t.wait_mutex].owner); s += buf; }
        if (t.st == T_BLK_JOIN) { snprintf(buf, sizeof buf, "[t%d]", t.join_target); s += buf; }
        s += ' ';
    }
    return s;
}

// choose the next task to run. `me` is the calling task.
int choose() {
    int cand[256], cls[256], nc = 0;
    int strong = 0;
    bool unadmitted = false;
    for (int i = 0; i < g.ntasks && nc < 256; ++i) {
        Task &t = *g.pool[i];
        int c = classify(t);
        if (c == 0) continue;
        if (!admitted(t)) { unadmitted = true; continue; }
        cand[nc] = i; cls[nc] = c; ++nc;
        if (c == 2) ++strong;
    }
    if (strong == 0 && unadmitted) {
        // nothing else can run: admit late starters now
        for (int i = 0; i < g.ntasks && nc < 256; ++i) {
            Task &t = *g.pool[i];
            if (classify(t) == 2 && !admitted(t)) { cand[nc] = i; cls[nc] = 2; ++nc; ++strong; }
        }
    }
    if (strong == 0) {
        bool all_done = true, any_poll = false;
        for (int i = 0; i < g.ntasks; ++i) {
            if (g.pool[i]->st != T_FINISHED) all_done = false;
            if (g.pool[i]->st == T_IDLE_POLL) any_poll = true;
        }
        if (all_done) return -1;
        die(any_poll ? END_LIVELOCK : END_DEADLOCK, describe_blocked());
    }
    if (nc == 1) return cand[0];

    // a real decision
    long di = g.st.decisions++;
    int pick = -1;
    bool cur_in = false;
    for (int i = 0; i < nc; ++i) if (cand[i] == g.cur) cur_in = true;

    if (g.cfg.use_forced) {
        int want = di < (long)g.cfg.forced.size() ? (int)g.cfg.forced[di] : -1;
        for (int i = 0; i < nc; ++i) if (cand[i] == want) pick = want;
        if (pick >= 0 && cls[std::find(cand, cand + nc, pick) - cand] == 1) {
            // forced weak poller: allowed
        }
        if (pick < 0) {
            // fall back: continue the current task if strongly enabled, else first strongly enabled
            for (int i = 0; i < nc; ++i) if (cand[i] == g.cur && cls[i] == 2) pick = g.cur;
            if (pick < 0) for (int i = 0; i < nc; ++i) if (cls[i] == 2) { pick = cand[i]; break; }
        }
    } else {
        // weak pollers are woken with small probability
        int e[256], ne = 0;
        for (int i = 0; i < nc; ++i) {
            if (cls[i] == 2) e[ne++] = cand[i];
            else if (g.rng.chance(g.cfg.sched.poll_wake_p)) e[ne++] = cand[i];
        }
        // stalled victim is excluded while others exist
        if (g.stall_victim >= 0 && di < g.stall_until && ne > 1) {
            int k = 0;
            for (int i = 0; i < ne; ++i) if (e[i] != g.stall_victim) e[k++] = e[i];
            if (k > 0) ne = k;
        }
        bool cur_e = false;
        for (int i = 0; i < ne; ++i) if (e[i] == g.cur) cur_e = true;
        switch (g.cfg.sched.strategy) {
        default:
        case ST_UNIFORM: pick = e[g.rng.below(ne)]; break;
        case ST_STALL:
        case ST_STICKY:
            if (cur_e && g.rng.chance(g.cfg.sched.sticky_q)) pick = g.cur;
            else pick = e[g.rng.below(ne)];
            break;
        case ST_SERIAL: pick = cur_e ? g.cur : e[0]; break;
        case ST_PCT: {
            while (!g.change_points.empty() && g.change_points.back() <= di) {
                g.change_points.pop_back();
                g.pool[g.cur]->prio = --g.low_prio;
            }
            long best = 0; pick = -1;
            for (int i = 0; i < ne; ++i)
                if (pick < 0 || g.pool[e[i]]->prio > best) { pick = e[i]; best = g.pool[e[i]]->prio; }
            break;
        }
        }
    }
    (void)cur_in;
    g.st.decisions_log.push_back((uint16_t)pick);
    g.st.h_sched = mix(g.st.h_sched, (uint64_t)pick + 1);
    return pick;
}

void run_task(int nx) {
    Task &t = *g.pool[nx];
    // unblock bookkeeping
    if (t.st == T_BLK_SPIN || t.st == T_BLK_JOIN || t.st == T_IDLE_POLL || t.st == T_BLK_MUTEX) t.st = T_RUNNABLE;
    t.started = true;
}

void switch_from(int me, int nx) {
    if (nx == me) { run_task(nx); return; }
    ++g.st.switches;
    run_task(nx);
    g.cur = nx;
    sem_post(&g.pool[nx]->sem);
    sem_wait(&g.pool[me]->sem);
}

void step_account() {
    ++g.st.yields;
    if (++g.st.steps > g.cfg.step_budget) die(END_STEP_BUDGET, describe_blocked());
}

void yield_point(int /*kind*/) {
    step_account();
    int me = g.cur;
    int nx = choose();
    switch_from(me, nx);
}

// caller has set its own state to a blocked state
void block_here() {
    int me = g.cur;
    for (;;) {
        int nx = choose();
        switch_from(me, nx);
        if (g.pool[me]->st == T_RUNNABLE) return;
    }
}

void *pool_main(void *p) {
    Task *t = (Task *)p;
    for (;;) {
        sem_wait(&t->sem);
        t->ret = t->fn(t->arg);
        // finished
        t->st = T_FINISHED;
        ++g.st.tasks_finished;
        step_account();
        int nx = choose();
        if (nx < 0) die(END_DEADLOCK, "all tasks finished but main"); // cannot happen: main joins
        run_task(nx);
        g.cur = nx;
        ++g.st.switches;
        sem_post(&g.pool[nx]->sem);
    }
    return nullptr;
}

void hook(int kind, long pnum, long a, long b, long c, const void *ptr) {
    if (!g.active) return;
    Task &me = *g.pool[g.cur];
    if (pnum >= 0) me.pnum = pnum;
    ++g.st.events;
    uint64_t h = mix(g.st.h_obs, (uint64_t)kind);
    h = mix(h, (uint64_t)(me.pnum + 2));
    if (kind != EV_INIT) { h = mix(h, (uint64_t)a); h = mix(h, (uint64_t)b); h = mix(h, (uint64_t)c); }
    g.st.h_obs = h;
    if (trace_fd >= 0) { char tb[160]; int tn = snprintf(tb, sizeof tb, "EV t%d p%ld kind=%d a=%ld b=%ld c=%ld dec=%ld\n", g.cur, me.pnum, kind, a, b, c, g.st.decisions); if (write(trace_fd, tb, (size_t)tn) < 0) {} }
    if (event_cb) event_cb(g.cur, kind, pnum, a, b, c, ptr);
    if (kind == EV_SPIN) {
        const volatile int *f = (const volatile int *)ptr;
        if (*f) {
            ++g.st.spin_blocks;
            me.spin = f;
            me.st = T_BLK_SPIN;
            block_here();
        }
        return;
    }
    if (kind == EV_SCHED_CS) {
        if (b < 0) me.polled_empty = true;
        else {
            ++g.sched_epoch;
            uint64_t s = mix(g.st.h_shape, (uint64_t)(me.pnum + 2));
            s = mix(s, (uint64_t)b); g.st.h_shape = mix(s, (uint64_t)c);
        }
    } else if (kind == EV_NEW_SUPER || kind == EV_SUPER_OPEN) {
        g.st.h_shape = mix(mix(g.st.h_shape, (uint64_t)kind * 1000003ULL + (uint64_t)a), (uint64_t)(me.pnum + 2));
    }
    const SchedSpec &sp = g.cfg.sched;
    if (sp.strategy == ST_STALL && kind == sp.stall_kind && !g.cfg.use_forced) {
        if (++g.stall_seen == sp.stall_nth) {
            g.stall_victim = g.cur;
            g.stall_until = g.st.decisions + sp.stall_k;
        }
    }
    if ((sp.yield_mask >> kind) & 1ULL) yield_point(kind);
}

} // namespace

// ------------------------------------------------------------------ public API
bool active() { return g.active; }
int current_task() { return g.cur; }
int task_count() { return g.ntasks; }
bool task_live(int t) { return t >= 0 && t < g.ntasks && g.pool[t]->st != T_FINISHED && g.pool[t]->st != T_FREE; }
long task_pnum(int t) { return t >= 0 && t < g.ntasks ? g.pool[t]->pnum : -1; }
int mutex_owner(const void *addr) { int i = find_mutex(addr); return i < 0 ? -1 : g.mutexes[i].owner; }
void note_sched_lock(const void *addr) { g.sched_lock = addr; }
void note_tasks_remain(const void *p, int width) { g.tasks_remain_ptr = p; g.tasks_remain_width = width; }
void obs(uint64_t v) { g.st.h_obs = mix(g.st.h_obs, v); }
void shape(uint64_t v) { g.st.h_shape = mix(g.st.h_shape, v); }
void request_stop(const std::string &why) { die(END_MONITOR_STOP, why); }

void install() {
    slu_mt_verif_hook = hook;
    if (!live) live = new std::unordered_map<void *, AllocRec>();
    void *bt[4];
    backtrace(bt, 4); // force lazy initialisation (may allocate) outside any run
    if (g.pool.empty()) {
        Task *m = new Task();
        sem_init(&m->sem, 0, 0);
        g.pool.push_back(m);
    }
}

void begin_run(const RunConfig &cfg) {
    g.cfg = cfg;
    g.rng.reseed(cfg.sched.seed);
    g.st = RunStats();
    g.mutexes.clear();
    g.sched_lock = nullptr;
    g.tasks_remain_ptr = nullptr;
    g.sched_epoch = 0;
    g.ntasks = 1;
    g.cur = 0;
    g.creates = 0;
    g.omp_team = 0;
    g.stall_victim = -1; g.stall_until = -1; g.stall_seen = 0;
    g.low_prio = 0;
    Task &m = *g.pool[0];
    m.omp_id = 0;
    m.id = 0; m.st = T_RUNNABLE; m.started = true; m.pnum = -1; m.joined = false; m.polled_empty = false;
    m.prio = 1000000; // main keeps top priority under PCT unless demoted
    g.change_points.clear();
    if (cfg.sched.strategy == ST_PCT) {
        Rng r(derive(cfg.sched.seed, 77));
        for (int i = 0; i < cfg.sched.pct_d; ++i) g.change_points.push_back((long)r.below((uint64_t)std::max(1L, cfg.sched.pct_len)));
        std::sort(g.change_points.begin(), g.change_points.end(), std::greater<long>());
    }
    alloc_seq = 0;
    g.active = true;
}

void end_run(RunStats &out) {
    g.active = false;
    out = g.st;
    out.allocs = alloc_seq;
}

void peek_stats(RunStats &out) { out = g.st; out.allocs = alloc_seq; }
void arm_alloc(bool on) { alloc_armed = on; }
long alloc_count() { return alloc_seq; }
void reset_alloc_count() { alloc_seq = 0; }
void live_blocks(std::vector<LiveBlock> &out) {
    out.clear();
    for (auto &kv : *live) out.push_back({kv.first, kv.second.size, kv.second.seq, kv.second.site});
    std::sort(out.begin(), out.end(), [](const LiveBlock &x, const LiveBlock &y) { return x.seq < y.seq; });
}
size_t live_bytes() { size_t s = 0; for (auto &kv : *live) s += kv.second.size; return s; }
void forget_live_blocks() { live->clear(); }

std::string site_name(const void *pc) {
    Dl_info di;
    if (pc && dladdr(pc, &di) && di.dli_sname) return di.dli_sname;
    return "?";
}

std::string read_captured_stderr() {
    std::string s;
    if (stderr_capture_fd < 0) return s;
    struct stat sb;
    if (fstat(stderr_capture_fd, &sb) != 0 || sb.st_size <= 0) return s;
    size_t n = (size_t)std::min<off_t>(sb.st_size, 4096);
    s.resize(n);
    ssize_t r = pread(stderr_capture_fd, &s[0], n, 0);
    s.resize(r > 0 ? (size_t)r : 0);
    return s;
}
void reset_captured_stderr() {
    if (stderr_capture_fd >= 0) { if (ftruncate(stderr_capture_fd, 0) != 0) {} }
}

// coverage builds (gcc --coverage, tools/coverage.sh): counters are written at exit(), which workers never reach
#ifdef SIM_COVERAGE
extern "C" void __gcov_dump(void);
void flush_coverage() { __gcov_dump(); }
#else
void flush_coverage() {}
#endif

[[noreturn]] void die(int endkind, const std::string &detail) {
    g.active = false;
    alloc_armed = false;
    std::string line = on_die ? on_die(endkind, detail) : std::string("{\"end\":") + std::to_string(endkind) + "}\n";
    if (result_fd >= 0) {
        size_t off = 0;
        while (off < line.size()) {
            ssize_t w = write(result_fd, line.data() + off, line.size() - off);
            if (w <= 0) break;
            off += (size_t)w;
        }
    }
    flush_coverage();
    _exit(0);
}

} // namespace sim

// ------------------------------------------------------------------ link-time wrappers
using namespace sim;

extern "C" {

int __wrap_pthread_create(pthread_t *th, const pthread_attr_t *attr, void *(*fn)(void *), void *arg) {
    if (!g.active) return __real_pthread_create(th, attr, fn, arg);
    int ci = g.creates++;
    if (g.cfg.faults.thread_create_fail == ci) { ++g.st.create_faults_fired; return EAGAIN; }
    int id = g.ntasks;
    if ((int)g.pool.size() <= id) {
        Task *t = new Task();
        sem_init(&t->sem, 0, 0);
        g.pool.push_back(t);
    }
    Task &t = *g.pool[id];
    if (!t.has_os) {
        pthread_attr_t a;
        pthread_attr_init(&a);
        pthread_attr_setstacksize(&a, 4 << 20);
        bool was = alloc_armed; alloc_armed = false;
        int rc = __real_pthread_create(&t.os, &a, pool_main, &t);
        alloc_armed = was;
        pthread_attr_destroy(&a);
        if (rc) return rc;
        t.has_os = true;
    }
    t.id = id; t.fn = fn; t.arg = arg; t.ret = nullptr; t.st = T_RUNNABLE; t.started = false;
    t.joined = false; t.polled_empty = false; t.pnum = -1; t.wait_mutex = -1; t.join_target = -1;
    t.prio = (long)g.rng.below(1000) + 1;
    g.ntasks = id + 1;
    ++g.st.tasks_created;
    *th = (pthread_t)(uintptr_t)(0x51000000UL + (unsigned)id);
    yield_point(YP_CREATE);
    return 0;
}

int __wrap_pthread_join(pthread_t th, void **ret) {
    if (!g.active) return __real_pthread_join(th, ret);
    uintptr_t v = (uintptr_t)th;
    int id = (int)(v - 0x51000000UL);
    if (id <= 0 || id >= g.ntasks) return ESRCH;
    Task &me = *g.pool[g.cur];
    Task &t = *g.pool[id];
    if (t.joined) return EINVAL;
    if (t.st != T_FINISHED) {
        me.join_target = id;
        me.st = T_BLK_JOIN;
        block_here();
    }
    t.joined = true;
    ++g.st.tasks_joined;
    if (ret) *ret = t.ret;
    yield_point(YP_JOIN);
    return 0;
}

// A task that leaves through pthread_exit() instead of returning from its start routine.  For a created worker this is an ordinary way to
// finish (its pooled OS thread goes with it); for the thread that called the library it means the call never returns to its caller.
void __wrap_pthread_exit(void *ret) {
    if (!g.active) __real_pthread_exit(ret);
    if (g.cur == 0) die(END_MONITOR_STOP, "C04|caller_thread_exited|pthread_exit() on the calling thread inside a library call: the routine never returns to its caller");
    Task &t = *g.pool[g.cur];
    t.ret = ret; t.st = T_FINISHED; t.has_os = false;
    ++g.st.tasks_finished;
    step_account();
    int nx = choose();
    if (nx < 0) die(END_DEADLOCK, "all tasks finished but main");
    run_task(nx);
    g.cur = nx;
    ++g.st.switches;
    pthread_t self = t.os; pthread_detach(self);
    sem_post(&g.pool[nx]->sem);
    __real_pthread_exit(ret);
}

int __wrap_pthread_mutex_init(pthread_mutex_t *m, const pthread_mutexattr_t *a) {
    if (!g.active) return __real_pthread_mutex_init(m, a);
    memset(m, 0, sizeof *m);
    int i = get_mutex(m);
    g.mutexes[i].owner = -1;
    return 0;
}
int __wrap_pthread_mutex_destroy(pthread_mutex_t *m) {
    if (!g.active) return 0; // sim-initialised mutexes are plain zeroed memory
    int i = find_mutex(m);
    if (i >= 0) g.mutexes[i].owner = -1;
    return 0;
}
int __wrap_pthread_mutex_lock(pthread_mutex_t *m) {
    if (!g.active) return __real_pthread_mutex_lock(m);
    yield_point(YP_LOCK);
    int i = get_mutex(m);
    Task &me = *g.pool[g.cur];
    while (g.mutexes[i].owner >= 0) {
        if (g.mutexes[i].owner == g.cur) die(END_DEADLOCK, "relock of a mutex by its owner");
        ++g.st.mutex_blocks;
        me.wait_mutex = i;
        me.st = T_BLK_MUTEX;
        block_here();
    }
    g.mutexes[i].owner = g.cur;
    return 0;
}
int __wrap_pthread_mutex_unlock(pthread_mutex_t *m) {
    if (!g.active) return __real_pthread_mutex_unlock(m);
    int i = get_mutex(m);
    g.mutexes[i].owner = -1;
    Task &me = *g.pool[g.cur];
    bool stutter = false;
    if (me.polled_empty) {
        me.polled_empty = false;
        // a failed poll is a stutter step only while the worker loop would poll again
        long tr = 1;
        if (g.tasks_remain_ptr)
            tr = g.tasks_remain_width == 8 ? (long)*(const volatile long long *)g.tasks_remain_ptr
                                           : (long)*(const volatile int *)g.tasks_remain_ptr;
        stutter = tr > 0;
    }
    if (stutter) {
        ++g.st.idle_polls;
        me.poll_epoch = g.sched_epoch;
        me.st = T_IDLE_POLL;
        // idle polls are stutter steps: not counted as productive
        block_here();
        return 0;
    }
    yield_point(YP_UNLOCK);
    return 0;
}


#ifdef SIM_OMP
// ------------------------------------------------------------------ OpenMP build of the library (-D__OPENMP -fopenmp):
// gcc lowers `#pragma omp parallel for` to GOMP_parallel(outlined_fn, data, num_threads, flags) and the outlined function
// computes its own static chunk from omp_get_num_threads()/omp_get_thread_num(); `#pragma omp critical (NAME)` becomes
// GOMP_critical_name_start/end(&.gomp_critical_user_NAME).  These five entry points are all the library needs from libgomp;
// they are defined here (libgomp is not linked), so the team is made of simulated tasks and every critical section is a
// simulated mutex keyed by the address of its name object.
struct OmpArg { void (*fn)(void *); void *data; int tid; };
static void *omp_trampoline(void *p) { OmpArg *a = (OmpArg *)p; g.pool[g.cur]->omp_id = a->tid; a->fn(a->data); return nullptr; }

void GOMP_parallel(void (*fn)(void *), void *data, unsigned num_threads, unsigned /*flags*/) {
    if (!g.active) { fn(data); return; }
    int T = num_threads ? (int)num_threads : (g.cfg.omp_team > 0 ? g.cfg.omp_team : 1);
    if (T > 64) T = 64;
    if (g.omp_team > 0) { fn(data); return; } // nested region: serialised, as libgomp does by default
    g.omp_team = T;
    g.pool[g.cur]->omp_id = 0;
    g.cfg.faults.thread_create_fail = -1;     // a team cannot fail to form in a way the library could handle: not a fault kind of this flavour
    OmpArg arg[64];
    pthread_t th[64];
    for (int t = 1; t < T; ++t) {
        arg[t] = OmpArg{fn, data, t};
        if (__wrap_pthread_create(&th[t], nullptr, omp_trampoline, &arg[t]) != 0) die(END_ABORT, "simulated team could not be created");
    }
    fn(data);
    for (int t = 1; t < T; ++t) __wrap_pthread_join(th[t], nullptr); // the implicit barrier at the end of the region
    g.omp_team = 0;
}
int omp_get_thread_num(void) { return g.active && g.omp_team > 0 ? g.pool[g.cur]->omp_id : 0; }
int omp_get_num_threads(void) { return g.active && g.omp_team > 0 ? g.omp_team : 1; }
void GOMP_critical_name_start(void **pptr) { if (g.active) __wrap_pthread_mutex_lock((pthread_mutex_t *)pptr); }
void GOMP_critical_name_end(void **pptr) { if (g.active) __wrap_pthread_mutex_unlock((pthread_mutex_t *)pptr); }
double omp_get_wtime(void) { struct timespec ts; clock_gettime(CLOCK_MONOTONIC, &ts); return (double)ts.tv_sec + 1e-9 * (double)ts.tv_nsec; } // feeds Gstat->utime[] only
#endif

static void *account(void *p, size_t n, const void *site, bool fill) {
    if (!p) return p;
    if (fill) memset(p, g.cfg.fill, n);
    (*live)[p] = AllocRec{n, ++alloc_total_seq, site};
    return p;
}
static bool should_fail() {
    long k = ++alloc_seq;
    const FaultPlan &f = g.cfg.faults;
    if ((f.alloc_fail_from > 0 && k >= f.alloc_fail_from) || (f.alloc_fail_only > 0 && k == f.alloc_fail_only)) {
        ++g.st.alloc_faults_fired;
        return true;
    }
    return false;
}
static const void *caller_site() {
    if (!want_sites) return nullptr;
    void *bt[6];
    bool was = alloc_armed; alloc_armed = false;
    int n = backtrace(bt, 6);
    alloc_armed = was;
    // bt[0] = caller_site, bt[1] = __wrap_malloc, bt[2] = superlu_malloc or direct caller, ...
    for (int i = 2; i < n; ++i) {
        Dl_info di;
        if (dladdr(bt[i], &di) && di.dli_sname) {
            const char *s = di.dli_sname;
            if (!strcmp(s, "superlu_malloc") || !strcmp(s, "intMalloc") || !strcmp(s, "intCalloc") ||
                strstr(s, "Malloc") || strstr(s, "Calloc") || strstr(s, "user_malloc"))
                continue;
        }
        return bt[i];
    }
    return n > 2 ? bt[2] : nullptr;
}

void *__wrap_malloc(size_t n) {
    if (!alloc_armed) return __real_malloc(n);
    alloc_armed = false;
    void *p = nullptr;
    if (!should_fail()) {
        const void *site = caller_site();
        p = account(__real_malloc(n), n, site, true);
    }
    alloc_armed = true;
    return p;
}
void *__wrap_calloc(size_t a, size_t b) {
    if (!alloc_armed) return __real_calloc(a, b);
    alloc_armed = false;
    void *p = nullptr;
    if (!should_fail()) p = account(__real_calloc(a, b), a * b, caller_site(), false);
    alloc_armed = true;
    return p;
}
void *__wrap_realloc(void *q, size_t n) {
    if (!alloc_armed) return __real_realloc(q, n);
    alloc_armed = false;
    void *p = nullptr;
    if (!should_fail()) {
        p = __real_realloc(q, n);
        if (p) { if (q) live->erase(q); account(p, n, caller_site(), false); }
    }
    alloc_armed = true;
    return p;
}
void __wrap_free(void *p) {
    if (p && live) {
        bool was = alloc_armed; alloc_armed = false;
        live->erase(p);
        alloc_armed = was;
    }
    __real_free(p);
}

void __wrap_exit(int code) {
    if (g.active || alloc_armed) {
        char buf[64];
        snprintf(buf, sizeof buf, "exit(%d)", code);
        die(END_ABORT, buf);
    }
    __real_exit(code);
}

} // extern "C"
