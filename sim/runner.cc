#include "runner.hh"
#include <cstring>
#include "monitor.hh"
#include <unistd.h>
#include <fcntl.h>
#include <cstdarg>
#include <memory>

long g_ienv[9] = {0, 8, 4, 32, 16, 8, -50, -50, -30};

static std::string fmt(const char *f, ...) __attribute__((format(printf, 1, 2)));
static std::string fmt(const char *f, ...) { char b[700]; va_list ap; va_start(ap, f); vsnprintf(b, sizeof b, f, ap); va_end(ap); return b; }

static const Case *g_case = nullptr;
static Outcome *g_out = nullptr;
static int g_op = -1;

std::string primary_property(const std::string &profile) {
    if (profile == "ssv") return "C01";
    if (profile == "strf" || profile == "tiny") return "C02";
    if (profile == "sing") return "C06";
    if (profile == "svx") return "C07";
    if (profile == "hist") return "C08";
    if (profile == "cond") return "C12";
    if (profile == "refine") return "C13";
    if (profile == "alloc") return "C14";
    if (profile == "sym") return "C16";
    if (profile == "leak" || profile == "symleak") return "C17";
    if (profile == "carry") return "C18";
    if (profile == "pipe") return "C03";
    if (profile == "term" || profile == "forest") return "C04";
    if (profile == "mem") return "C05";
    return "C01";
}

static std::string g_sig_suffix; // context tag of the current op (a configuration class with a listed finding)
static void add_viol(Outcome &o, const std::string &prop, const std::string &oracle, const std::string &detail, int op, const std::string &sig = "") {
    if (o.viols.size() >= 12) return;
    Viol v; v.prop = prop; v.oracle = oracle; v.detail = detail; v.op = op; v.sig = (sig.empty() ? oracle : sig) + g_sig_suffix;
    o.viols.push_back(v);
}

static bool has_fault(const OpSpec &op) {
    return op.faults.alloc_fail_from > 0 || op.faults.alloc_fail_only > 0 || op.faults.thread_create_fail >= 0 ||
           op.ienv[6] > 0 || op.ienv[7] > 0 || op.ienv[8] > 0 || (op.x.lwork > 0);
}

static std::string on_die_cb(int endkind, const std::string &detail) {
    static Outcome dummy;
    Outcome &o = g_out ? *g_out : dummy;
    o.end = endkind; o.end_op = g_op; o.end_detail = detail;
    o.stderr_text = sim::read_captured_stderr();
    if (o.stderr_text.size() > 600) o.stderr_text.resize(600);
    std::string prim = g_case ? primary_property(g_case->profile) : "C01";
    const OpSpec *op = (g_case && g_op >= 0 && g_op < (int)g_case->ops.size()) ? &g_case->ops[g_op] : nullptr;
    { sim::RunStats ps; sim::peek_stats(ps); o.faults["alloc_fail_fired"] += ps.alloc_faults_fired; o.faults["thread_create_fail_fired"] += ps.create_faults_fired;
      o.steps += ps.steps; o.decisions += ps.decisions; o.switches += ps.switches; o.events += ps.events; o.h_sched = sim::mix(o.h_sched, ps.h_sched); o.h_obs = sim::mix(o.h_obs, ps.h_obs); }
    if (g_case && g_case->tags.count("alloc_mode")) o.probes[std::string("alloc_mode_") + std::to_string(g_case->tags.at("alloc_mode"))]++;
    // monitors may have pending violations
    monitor_collect(o.viols, g_op);
    monitor_probes(o.probes);
    switch (endkind) {
    case sim::END_DEADLOCK: add_viol(o, "C04", "deadlock", detail, g_op); break;
    case sim::END_LIVELOCK: add_viol(o, "C04", "livelock", detail, g_op); break;
    case sim::END_STEP_BUDGET: add_viol(o, "C04", "step_budget", detail, g_op); break;
    case sim::END_ABORT: {
        bool storage = o.stderr_text.find("exceeded; Current column") != std::string::npos;
        bool fault = op && has_fault(*op);
        if (storage) {
            o.probes["abort_storage_exceeded"]++;
            // the diagnostic is justified only if the need it names exceeds the estimate the run was configured with (sp_ienv(7) for U,
            // sp_ienv(8) for L's subscripts: a positive count, or minus a multiple of nnz(A)); with a caller workspace the initial allocation
            // may have halved the estimates, so nothing is asserted there
            long need = -1; int param = 0;
            size_t a = o.stderr_text.find("Need at least "), b = o.stderr_text.find("set it by the ");
            if (a != std::string::npos) need = atol(o.stderr_text.c_str() + a + 14);
            if (b != std::string::npos) param = atoi(o.stderr_text.c_str() + b + 14);
            bool user_ws = false; if (g_case) for (auto &q : g_case->ops) if (q.x.lwork > 0) user_ws = true;
            if (op && g_case && need >= 0 && (param == 7 || param == 8) && !user_ws) {
                long cap = op->ienv[param] < 0 ? -op->ienv[param] * (long)g_case->M.nnz() : op->ienv[param];
                if (need <= cap) add_viol(o, prim, "storage_exceeded_diagnostic_within_estimate", fmt("the library stopped with 'storage exceeded' for sp_ienv(%d): need %ld, configured estimate %ld", param, need, cap), g_op);
                else o.probes["abort_storage_exceeded_justified"]++;
            }
        } else if (fault) {
            o.probes["abort_under_fault"]++;
            if (o.stderr_text.find_first_not_of(" \n\t") == std::string::npos) add_viol(o, "C14", "abort_without_diagnostic", detail, g_op);
        } else add_viol(o, prim, "unexpected_abort", detail + " stderr=" + o.stderr_text, g_op);
        break;
    }
    case sim::END_MONITOR_STOP: {
        // detail = "PROP|sig|text"
        size_t a = detail.find('|'), b = a == std::string::npos ? a : detail.find('|', a + 1);
        if (b != std::string::npos) add_viol(o, detail.substr(0, a), detail.substr(a + 1, b - a - 1), detail.substr(b + 1), g_op);
        else add_viol(o, prim, "monitor_stop", detail, g_op);
        break;
    }
    default: break;
    }
    static Case dummy_case;
    return "R " + result_line(g_case ? *g_case : dummy_case, o) + "\n";
}

static void layout_cb(bool skipped) {
    if (!skipped || !g_out) return;
    g_out->probes["cfg_relaxed_snode_inside_h_supernode"]++;
    if (g_sig_suffix.find("@relaxed_snode_inside_h_supernode") != std::string::npos) return;
    g_sig_suffix += "@relaxed_snode_inside_h_supernode";
    if (sim::result_fd >= 0) { std::string t = "T " + g_sig_suffix + "\n"; if (write(sim::result_fd, t.data(), t.size()) < 0) {} }
}

void runner_install() {
    monitor_layout_cb = layout_cb;
    sim::install();
    sim::on_die = on_die_cb;
    monitor_install();
}

// ------------------------------------------------------------------ result serialisation
J outcome_to_j(const Case &c, const Outcome &o, bool with_sched) {
    J j = J::obj();
    j.set("seed", J((long long)c.seed));
    static const char *ends[] = {"normal", "deadlock", "livelock", "step_budget", "abort", "monitor_stop"};
    j.set("end", ends[o.end >= 0 && o.end < 6 ? o.end : 0]);
    if (o.end) { j.set("end_op", o.end_op); j.set("end_detail", o.end_detail); if (!o.stderr_text.empty()) j.set("stderr", o.stderr_text); }
    J vs = J::arr();
    for (auto &v : o.viols) { J x = J::obj(); x.set("p", v.prop).set("o", v.oracle).set("sig", v.sig).set("d", v.detail).set("op", v.op); vs.push(x); }
    j.set("viol", vs);
    J pr = J::obj(); for (auto &kv : o.probes) pr.set(kv.first, J((long long)kv.second)); j.set("probes", pr);
    J ex = J::obj(); for (auto &kv : o.excl) ex.set(kv.first, J((long long)kv.second)); j.set("excl", ex);
    J fa = J::obj(); for (auto &kv : o.faults) fa.set(kv.first, J((long long)kv.second)); j.set("faults", fa);
    char hb[32];
    snprintf(hb, sizeof hb, "%016llx", (unsigned long long)o.h_sched); j.set("hs", hb);
    snprintf(hb, sizeof hb, "%016llx", (unsigned long long)o.h_obs); j.set("ho", hb);
    snprintf(hb, sizeof hb, "%016llx", (unsigned long long)o.h_shape); j.set("hshape", hb);
    j.set("steps", (long long)o.steps).set("decisions", (long long)o.decisions).set("switches", (long long)o.switches).set("events", (long long)o.events);
    if (o.sample.t == J::OBJ) j.set("sample", o.sample);
    if (with_sched) { J a = J::arr(); for (auto &d : o.decisions_log) a.push(rle_to_j(d)); j.set("sched_rle", a); }
    return j;
}
std::string result_line(const Case &c, const Outcome &o) { return outcome_to_j(c, o, false).dump(); }

// ------------------------------------------------------------------ oracle evaluation
namespace {

struct Ctx {
    Case &c; Outcome &out; const RunnerOpts &ro;
    std::unique_ptr<Drv> drv;
    std::vector<int> base_perm_c;
    int cur_values = -1;
    // reference cache per value set
    std::map<int, RefInfo> ref;
    Ctx(Case &c_, Outcome &o_, const RunnerOpts &r_) : c(c_), out(o_), ro(r_) {}
};

const RefInfo &ref_for(Ctx &x, int vid, const Dense &Amath) {
    auto it = x.ref.find(vid);
    if (it != x.ref.end()) return it->second;
    return x.ref[vid] = ref_analyse(Amath, false);
}

bool finite_factors(const Dense &L, const Dense &U, int prec) {
    ld lim = prec_is_single(prec) ? 1e30L : 1e290L;
    for (auto &v : L.a) if (!(absl_(v) < lim)) return false;
    for (auto &v : U.a) if (!(absl_(v) < lim)) return false;
    return true;
}

// factor + structure + (optional) solve oracles after a successful factorization
void eval_factorization(Ctx &x, int opi, const OpSpec &op, long info, bool check_solve_too, const std::vector<cld> &Bin,
                        const std::vector<cld> &Xout, int solve_trans, bool diag_check) {
    Case &c = x.c; Outcome &o = x.out;
    int n = c.M.n;
    // the matrix that was factored: A as it is after the call (the expert driver may have equilibrated it in place)
    std::vector<cld> vals = x.drv->get_A_values();
    Dense Md = csc_to_dense(c.M, vals);
    Dense Amath = c.stype_nr ? transpose(Md) : Md;
    bool scaled = (op.kind == OP_GSSVX && op.x.fact == 1);
    RefInfo ri_local;
    if (scaled) ri_local = ref_analyse(Amath, false);
    const RefInfo &ri = scaled ? ri_local : ref_for(x, op.values_id, Amath);
    ld eps = prec_eps(c.prec);
    if (info != 0) {
        if (info < 0) { add_viol(o, primary_property(c.profile), "info_negative", fmt("info=%ld", info), opi); return; }
        if (info > n) {
            if (op.x.lwork > 0) { add_viol(o, "C14", "sufficient_workspace_reported_exhausted", fmt("info=%ld n=%d lwork=%ld: the caller workspace is twice a generous estimate of the need", info, n, op.x.lwork), opi); return; }
            add_viol(o, primary_property(c.profile), "info_gt_n_without_fault", fmt("info=%ld n=%d", info, n), opi); return;
        }
        if (ri.singular) { o.excl["ref_singular"]++; return; }
        // an exactly zero pivot means that A + E is singular for the backward error E of the elimination, |E| <= gamma_n |L||U|, so it is
        // legitimate as soon as 1/cond <= n eps rho (rho = || |L||U| || / ||A||); asserted only where cond n eps < 0.01, i.e. for rho up to 100
        if (ri.cond1 * n * eps > 0.01L) { o.excl["ill_conditioned_info_gt0"]++; return; }
        // with the threshold (nearly) switched off, tiny pivots are accepted and catastrophic growth can produce an exact zero later
        if (op.x.u < 0.01 && op.kind != OP_GSSV) { o.excl["weak_pivoting_info_gt0"]++; return; }
        add_viol(o, "C01", "info_nonzero_on_nonsingular", fmt("info=%ld cond1=%.3Le", info, ri.cond1), opi, "info_nonzero_on_nonsingular");
        return;
    }
    LUDump d; x.drv->dump_LU(d);
    std::vector<int> pr = x.drv->get_perm_r(), pc = x.drv->get_perm_c();
    std::vector<std::string> es;
    check_structure(d, pr, pc, es);
    for (auto &e : es) add_viol(o, "C09", "structure", e, opi);
    o.probes["factorizations_checked"]++;
    if (!es.empty()) { o.probes["structure_bad"]++; }
    if (!is_perm(pr, n) || !is_perm(pc, n)) return;
    Dense L, U;
    if (!expand_LU(d, L, U)) { if (es.empty()) add_viol(o, "C09", "structure", "factors cannot be expanded: " + d.why, opi); return; }
    if (!finite_factors(L, U, c.prec)) { o.excl["overflow_in_factors"]++; return; }
    FactorCheck fc;
    check_factor(Md, pr, pc, L, U, c.prec, op.x.u, op.x.usepr != 0, diag_check, fc);
    for (auto &e : fc.errs_a) add_viol(o, "C02", "reconstruction", e, opi);
    for (auto &e : fc.errs_b) add_viol(o, "C02", "multiplier_bound", e, opi);
    for (auto &e : fc.errs_c) add_viol(o, "C02", "diagonal_preference", e, opi);
    o.excl["diag_tie_band"] += fc.tie_excluded;
    o.probes["diag_checked"] += fc.diag_checked; o.probes["offdiag_pivots"] += fc.offdiag_pivots;
    if (check_solve_too && c.nrhs > 0) {
        // effective matrix of the system that was solved, in terms of the CSC view M
        // NC: op(A) = op(M); NR: A = M^T so op(A): N -> M^T, T -> M, C -> conj(M)
        Dense Aeff; bool etrans;
        int t = solve_trans;
        if (!c.stype_nr) { Aeff = t == 0 ? Md : t == 1 ? transpose(Md) : conj_transpose(Md); etrans = t != 0; }
        else { Aeff = t == 0 ? transpose(Md) : t == 1 ? Md : conj_dense(Md); etrans = t == 0; }
        std::vector<std::string> se; ld mr = 0;
        bool finite = true;
        for (auto &v : Xout) if (!(absl_(v) < INFINITY)) finite = false;
        if (!finite) {
            // a solution (or an intermediate of the triangular solves) outside the range of the working precision
            // is overflow, not instability: admitted only if the reference confirms the magnitude
            std::vector<cld> Xr; ld xm = 0, big = prec_is_single(c.prec) ? 3.4e38L : 1.7e308L;
            if (ref_solve(Aeff, Bin, c.nrhs, Xr)) for (auto &v : Xr) xm = std::max(xm, absl_(v));
            ld lum = 0; for (auto &v : L.a) lum = std::max(lum, absl_(v));
            ld uinv = 0; for (int i = 0; i < n; ++i) { ld d = absl_(U.at(i, i)); if (d > 0) uinv = std::max(uinv, 1 / d); }
            ld bm = 0; for (auto &v : Bin) bm = std::max(bm, absl_(v));
            if (xm * (1 + lum) * n > 1e-6L * big || bm * uinv * (1 + lum) * n > 1e-6L * big || ri.cond1 > 1 / eps) { o.excl["solution_overflows_precision"]++; return; }
            add_viol(o, "C01", "nonfinite_solution", fmt("X has non-finite entries although the exact solution has magnitude %.3Le (cond1 %.3Le)", xm, ri.cond1), opi);
            return;
        }
        check_solve(Aeff, etrans, pr, pc, L, U, Bin, Xout, c.nrhs, c.prec, se, &mr);
        for (auto &e : se) add_viol(o, "C01", "residual", e, opi);
        o.probes["solves_checked"]++;
    }
}

// C12 on the computational route: ?langs + ?gscon called directly on the factors p?gstrf returned, with every spelling of the norm
// argument the routine documents ('1', 'O', 'o' = one norm; 'I', 'i' = infinity norm).  Same bracket and admitted class as in the driver.
void eval_gscon(Ctx &x, int opi, const OpSpec &op) {
    Case &c = x.c; Outcome &o = x.out; int n = c.M.n;
    if (n == 0 || op.x.u < 0.1) return;
    std::vector<cld> vals = x.drv->get_A_values();
    Dense Md = csc_to_dense(c.M, vals);
    RefInfo ri = ref_analyse(Md, true);
    if (ri.singular) return;
    LUDump d; x.drv->dump_LU(d);
    Dense L, U;
    if (!d.ok || !expand_LU(d, L, U) || !finite_factors(L, U, c.prec)) return;
    ld maxA = 0, maxW = 0, ee = eps_eff(c.prec);
    for (auto &v : Md.a) maxA = std::max(maxA, absl_(v));
    for (int i = 0; i < n; ++i) for (int j = 0; j < n; ++j) { ld w = 0; int km = std::min(i, j); for (int k = 0; k <= km; ++k) w += absl_(L.at(i, k)) * absl_(U.at(k, j)); maxW = std::max(maxW, w); }
    ld growth = maxA > 0 ? maxW / maxA : 1;
    static const char norms[] = {'1', 'O', 'o', 'I', 'i'};
    sim::Rng rn(sim::derive(op.sched.seed, 0x9c0));
    char nm = norms[rn.below(5)];
    bool one = nm == '1' || nm == 'O' || nm == 'o';
    ld cond = one ? ri.cond1 : ri.condinf, normA = one ? ri.norm1 : ri.norminf;
    ld anorm = 0, rcond = 0;
    bool arm = c.profile == "leak";   // the estimator's own work arrays belong to the accounted sequence of the leak histories
    if (arm) sim::arm_alloc(true);
    long info = x.drv->call_gscon(nm, anorm, rcond);
    if (arm) sim::arm_alloc(false);
    o.probes["gscon_direct_calls"]++;
    if (info != 0) { add_viol(o, "C12", "gscon_rejects_documented_norm", fmt("?gscon(norm='%c') returned info=%ld", nm, info), opi); return; }
    if (!(fabsl(anorm - normA) <= 4 * n * ee * normA)) { add_viol(o, "C12", "langs_norm_mismatch", fmt("?langs('%c') = %.9Le, reference %.9Le", nm, anorm, normA), opi); return; }
    if (!(cond * growth * n * ee <= 1e-3L)) { o.excl["rcond_class_not_admitted"]++; return; }
    const Dense &inv = ri.inv;
    ld ninv = 0, nev = 0;
    if (one) { for (int j = 0; j < n; ++j) { ld sc = 0; for (int i = 0; i < n; ++i) sc += absl_(inv.at(i, j)); ninv = std::max(ninv, sc); }
               for (int i = 0; i < n; ++i) { cld sr = 0; for (int j = 0; j < n; ++j) sr += inv.at(i, j); nev += absl_(sr) / n; } }
    else { for (int i = 0; i < n; ++i) { ld sr = 0; for (int j = 0; j < n; ++j) sr += absl_(inv.at(i, j)); ninv = std::max(ninv, sr); }
           for (int j = 0; j < n; ++j) { cld sc = 0; for (int i = 0; i < n; ++i) sc += inv.at(i, j); nev += absl_(sc) / n; } }
    if (!(normA > 0 && ninv > 0)) return;
    ld lo = 1 / (normA * ninv), hi = nev > 0 ? 1 / (normA * nev) : INFINITY, tau = 1e-2L;
    o.probes["gscon_direct_rcond_checked"]++;
    if (!(rcond >= lo * (1 - tau))) add_viol(o, "C12", "rcond_below_true_reciprocal_condition", fmt("?gscon('%c'): rcond=%.6Le < 1/(|A||inv A|)=%.6Le (cond %.3Le growth %.3Le n %d)", nm, rcond, lo, cond, growth, n), opi);
    if (!(rcond <= hi * (1 + tau))) add_viol(o, "C12", "rcond_above_estimator_upper_bound", fmt("?gscon('%c'): rcond=%.6Le > 1/(|A||inv(A)e/n|)=%.6Le", nm, rcond, hi), opi);
}

// Was the zero pivot the library reported at column k (0-based, A*Pc order) a zero at rounding level?  With the returned factors the candidates of
// column k are r_i = (Pr A Pc)(i,k) - sum_{j<k} L(i,j) U(j,k), i >= k, evaluated here in extended precision; each was computed by the library
// with an error of about k eps (|a_ik| + sum |l_ij||u_jk|).  If every |r_i| is below that (or in the underflow range of the working precision), an
// exactly zero candidate set is what finite-precision elimination legitimately produces - exact cancellation, however unlikely for "generic" values,
// does occur at the volume of the thorough tier (about once per million single-precision runs) - and nothing can be asserted about its position.
bool zero_pivot_at_rounding_level(Ctx &x, long k) {
    Case &c = x.c; int n = c.M.n;
    if (k < 0 || k >= n) return false;
    std::vector<int> pr = x.drv->get_perm_r(), pc = x.drv->get_perm_c();
    if (!is_perm(pr, n) || !is_perm(pc, n) || !x.drv->have_LU()) return false;
    LUDump d; x.drv->dump_LU(d);
    Dense L, U;
    if (!d.ok || !expand_LU(d, L, U)) return false;
    Dense Md = csc_to_dense(c.M, x.drv->get_A_values());
    ld eps = eps_eff(c.prec), floor_ = (prec_is_single(c.prec) ? (ld)1.1754944e-38L : (ld)2.2250738585072014e-308L) * (n + 1) / eps;
    std::vector<int> ipr(n), ipc(n); for (int i = 0; i < n; ++i) { ipr[pr[i]] = i; ipc[pc[i]] = i; }
    ld rmax = 0, smax = 0;
    for (int i = (int)k; i < n; ++i) {
        cld a = Md.at(ipr[i], ipc[k]); cld r = a; ld sc = absl_(a);
        for (int j = 0; j < k; ++j) { r -= L.at(i, j) * U.at(j, (int)k); sc += absl_(L.at(i, j)) * absl_(U.at(j, (int)k)); }
        rmax = std::max(rmax, absl_(r)); smax = std::max(smax, sc);
    }
    return rmax <= 16.0L * (k + 2) * eps * smax + floor_;
}

// C06: singular inputs.  k* = first column (A*Pc order, 0-based) at which the library itself saw an all-zero candidate set.
void eval_singular(Ctx &x, int opi, const OpSpec &op, long info, const XOut &xo, uint64_t b_hash0, uint64_t x_hash0, const std::vector<cld> &Bin) {
    Case &c = x.c; Outcome &o = x.out; int n = c.M.n;
    long kstar = monitor_first_zero_col();
    long infof = (op.kind == OP_GSSVX && info == n + 1) ? 0 : info;
    if (infof < 0 || infof > n) { add_viol(o, "C06", "info_out_of_range", fmt("info=%ld n=%d", info, n), opi); return; }
    if (kstar >= 0) {
        o.probes["singular_runs"]++;
        if (infof != kstar + 1) add_viol(o, "C06", "info_not_first_zero_column", fmt("first all-zero candidate set at column %ld (0-based), info=%ld", kstar, info), opi);
    } else if (infof != 0) add_viol(o, "C06", "info_without_zero_pivot", fmt("info=%ld but no column had an all-zero candidate set", info), opi);
    // independent expectation from the structure of the nonzero values
    std::vector<int> pc = x.drv->get_perm_c(), pr = x.drv->get_perm_r();
    if (!is_perm(pc, n)) { add_viol(o, "C06", "perm_c_not_bijection", "perm_c is not a bijection after a singular return", opi); return; }
    for (int v : pr) if (v < -1 || v >= n) { add_viol(o, "C06", "perm_r_out_of_range", fmt("perm_r entry %d", v), opi); break; }
    const std::vector<cld> &vals = c.values[op.values_id];
    Mat nz; nz.n = n; nz.colptr.assign(1, 0);
    for (int j = 0; j < n; ++j) { for (int k = c.M.colptr[j]; k < c.M.colptr[j + 1]; ++k) if (vals[k] != cld(0, 0)) nz.rowind.push_back(c.M.rowind[k]); nz.colptr.push_back((int)nz.rowind.size()); }
    std::vector<int> order(n); for (int j = 0; j < n; ++j) order[pc[j]] = j;
    long hall = first_struct_deficient(nz, order);
    long ksym = first_symbolic_empty(nz, order, pr);   // exact zero guaranteed at this position (0-based) or -1
    bool generic = c.tags.count("valclass") && (c.tags["valclass"] == 1 || c.tags["valclass"] == 2 || c.tags["valclass"] == 5 || c.tags["valclass"] == 0);
    if (generic && c.tags["valclass"] == 5) {
        // a third of the badly scaled matrices consists of signed powers of two only (exactly representable scale factors):
        // products and quotients of such entries are exact, so exact cancellation is ordinary there - not generic values
        bool dyadic = true;
        for (auto &v : vals) for (ld t : {v.real(), v.imag()}) { int e; if (t != 0 && fabsl(frexpl(t, &e)) != 0.5L) dyadic = false; }
        if (dyadic) generic = false;
    }
    bool dup = c.family.find("duplicate_column") != std::string::npos;
    if (hall > 0) o.probes["structurally_singular_runs"]++;
    if (ksym >= 0) {
        long ks = ksym + 1;
        o.probes["structural_zero_column_runs"]++;
        if (infof == 0) add_viol(o, "C06", "structurally_singular_not_reported", fmt("column %ld of A*Pc has a structurally empty candidate set but info=%ld", ks, info), opi);
        else if (infof > ks) add_viol(o, "C06", "info_after_structural_deficiency", fmt("structurally empty candidate set at column %ld but info=%ld", ks, info), opi);
        else if (infof < ks) {
            // between the first structurally rank-deficient leading block (hall) and the first structurally empty candidate set
            // the exact-arithmetic zero shows as cancellation: an exact floating-point zero there is legitimate, before it is not
            if (generic && !dup && !(hall > 0 && infof >= hall) && zero_pivot_at_rounding_level(x, infof - 1)) o.excl["cancellation_zero_at_rounding_level"]++;
            else if (generic && !dup && !(hall > 0 && infof >= hall)) add_viol(o, "C06", "info_before_structural_deficiency", fmt("generic values: leading blocks are structurally nonsingular up to column %ld (first structurally empty candidate set at %ld) but info=%ld", hall, ks, info), opi);
            else o.excl[generic && !dup ? "cancellation_zero_before_structural_zero" : "nongeneric_early_zero"]++;
        }
    } else if (hall > 0) {
        // rank deficiency that only shows as cancellation between computed quantities: a tiny residue instead of an exact zero is legitimate
        o.excl["inexact_cancellation_class"]++;
    } else if (infof != 0) {
        if (dup) o.excl["inexact_cancellation_class"]++;
        else if (generic) {
            const RefInfo &ri = ref_for(x, op.values_id, csc_to_dense(c.M, vals));
            if (!ri.singular && ri.cond1 * n * prec_eps(c.prec) < 0.01L && zero_pivot_at_rounding_level(x, infof - 1)) o.excl["cancellation_zero_at_rounding_level"]++;
            else if (!ri.singular && ri.cond1 * n * prec_eps(c.prec) < 0.01L) add_viol(o, "C06", "singular_reported_on_nonsingular", fmt("info=%ld cond1=%.3Le", info, ri.cond1), opi);
            else o.excl["numerically_singular"]++;
        } else o.excl["nongeneric_values"]++;
    }
    if (infof > 0) {
        // no solution written
        if (op.kind == OP_GSSV || op.kind == OP_ROUTE) { if (x.drv->B_hash() != b_hash0) add_viol(o, "C06", "B_modified_on_singular", fmt("info=%ld", info), opi); }
        else if (op.kind == OP_GSSVX) {
            if (x.drv->X_hash() != x_hash0) add_viol(o, "C06", "X_modified_on_singular", fmt("info=%ld", info), opi);
            // B at most scaled by the reported equilibration
            std::vector<cld> Bout = x.drv->get_B();
            bool rowequ = xo.equed == 1 || xo.equed == 3, colequ = xo.equed == 2 || xo.equed == 3;
            bool notran = c.stype_nr ? (op.x.trans != 0) : (op.x.trans == 0);
            for (int j = 0; j < c.nrhs; ++j) for (int i = 0; i < n; ++i) {
                ld s = notran ? (rowequ ? xo.R[i] : 1) : (colequ ? xo.C[i] : 1);
                cld want = Bin[(size_t)j * n + i] * s, got = Bout[(size_t)j * n + i];
                if (absl_(got - want) > 2 * prec_eps(c.prec) * absl_(want)) { add_viol(o, "C06", "B_not_scaled_as_reported", fmt("B(%d,%d) equed=%d", i, j, xo.equed), opi); j = c.nrhs; break; }
            }
        }
        // returned objects safe to inspect
        if (x.drv->have_LU()) { LUDump d; x.drv->dump_LU(d); if (!d.ok) add_viol(o, "C06", "factors_unsafe_to_inspect", d.why, opi); }
    } else if (kstar < 0 && hall == 0) {
        o.probes["sing_profile_nonsingular_runs"]++;
    }
}

// C07 / C12 / C13: expert driver.  `Ain` = values of A before this call, `orig` = original (never equilibrated) values.
struct SvxState { bool valid = false; int equed = 0; std::vector<ld> R, C; uint64_t lu_hash = 0; std::vector<int> pr, pc; };

void eval_svx(Ctx &x, int opi, const OpSpec &op, const XOut &xo, const std::vector<cld> &Ain, const std::vector<cld> &Bin,
              uint64_t a_hash0, uint64_t b_hash0, uint64_t x_hash0, SvxState &st) {
    Case &c = x.c; Outcome &o = x.out; int n = c.M.n, nrhs = c.nrhs;
    ld eps = prec_eps(c.prec), ee = eps_eff(c.prec);
    long info = xo.info;
    bool factored = op.x.fact == 2;
    const std::vector<cld> &orig = c.values[op.values_id];
    Dense Morig = csc_to_dense(c.M, orig);
    Dense Aorig = c.stype_nr ? transpose(Morig) : Morig;
    if (!factored) {
        // what a later FACTORED call is compared with is the state left by *this* factorization, whatever the oracles below can
        // say about it (a class excluded from the numerical claims must not leave the record of an older factorization behind)
        st.valid = false;
        if (info == 0 || info == n + 1) {
            LUDump d0; x.drv->dump_LU(d0);
            if (d0.ok) { st.valid = true; st.equed = xo.equed; st.R = xo.R; st.C = xo.C; st.lu_hash = d0.bits_hash; st.pr = x.drv->get_perm_r(); st.pc = x.drv->get_perm_c(); }
        }
    }
    const RefInfo &ri0 = ref_for(x, op.values_id, Aorig);
    if (ri0.singular) { o.excl["ref_singular"]++; return; }
    if (!(info == 0 || info == n + 1)) {
        if (info > 0 && info <= n && ri0.cond1 * n * eps > 0.01L) { o.excl["ill_conditioned_info_gt0"]++; return; }
        // with the threshold (nearly) switched off a rounding-level diagonal is accepted as pivot, growth is unbounded and an exact zero later is
        // legitimate (the same exclusion the simple-driver oracle has; found at VERIF_SEED=29 with u = 0 and dyadic values)
        if (info > 0 && info <= n && op.x.u < 0.01) { o.excl["weak_pivoting_info_gt0"]++; return; }
        if (info > n + 1 && op.x.lwork > 0 && c.profile != "alloc" && c.profile != "leak") { add_viol(o, "C14", "sufficient_workspace_reported_exhausted", fmt("info=%ld n=%d lwork=%ld: the caller workspace is twice a generous estimate of the need", info, n, op.x.lwork), opi); return; }
        if (info > n + 1 && op.x.lwork > 0) { o.excl["caller_workspace_exhausted"]++; return; }
        add_viol(o, "C07", "info_not_0_or_n_plus_1", fmt("info=%ld n=%d cond1=%.3Le", info, n, ri0.cond1), opi); return;
    }
    o.probes["svx_calls_checked"]++;
    o.probes[std::string("svx_equed_") + std::to_string(xo.equed)]++;
    o.probes[std::string("svx_trans_") + std::to_string(op.x.trans) + (c.stype_nr ? "_NR" : "_NC") + "_fact" + std::to_string(op.x.fact)]++;
    bool rowequ = xo.equed == 1 || xo.equed == 3, colequ = xo.equed == 2 || xo.equed == 3;
    // effective transpose flag on the CSC view (the driver flips it for row-wise storage)
    bool notran = c.stype_nr ? (op.x.trans != 0) : (op.x.trans == 0);
    std::vector<cld> Aout = x.drv->get_A_values();
    // ---- A_out = diag(R)^a M_in diag(C)^b  (on the CSC view)
    if (factored) {
        if (x.drv->A_hash() != a_hash0) add_viol(o, "C08", "A_modified_by_FACTORED_call", "A changed although fact=FACTORED", opi);
        if (st.valid) {
            LUDump d; x.drv->dump_LU(d);
            if (!d.ok || d.bits_hash != st.lu_hash) add_viol(o, "C08", "LU_modified_by_FACTORED_call", "factors changed although fact=FACTORED", opi);
            if (x.drv->get_perm_r() != st.pr || x.drv->get_perm_c() != st.pc) add_viol(o, "C08", "perm_modified_by_FACTORED_call", "permutations changed although fact=FACTORED", opi);
            if (xo.equed != st.equed) add_viol(o, "C07", "equed_changed_by_FACTORED_call", fmt("equed %d -> %d", st.equed, xo.equed), opi);
        }
    } else if (xo.equed == 0) {
        if (x.drv->A_hash() != a_hash0) add_viol(o, "C07", "A_modified_without_equilibration", "equed=NOEQUIL but A differs bitwise", opi);
    } else {
        for (int j = 0; j < n; ++j) for (int k = c.M.colptr[j]; k < c.M.colptr[j + 1]; ++k) {
            int i = c.M.rowind[k];
            cld want = Ain[k] * (rowequ ? xo.R[i] : 1.0L) * (colequ ? xo.C[j] : 1.0L);
            if (absl_(Aout[k] - want) > 3 * eps * absl_(want) * (prec_is_complex(c.prec) ? 2 : 1)) { add_viol(o, "C07", "A_not_scaled_as_reported", fmt("entry (%d,%d) equed=%d", i, j, xo.equed), opi); j = n; break; }
        }
        if (op.x.fact == 0) add_viol(o, "C07", "equilibrated_without_request", fmt("fact=DOFACT but equed=%d", xo.equed), opi);
    }
    // ---- B_out = diag(S) B_in
    std::vector<cld> Bout = x.drv->get_B();
    bool bscaled = (notran && rowequ) || (!notran && colequ);
    if (!bscaled) { if (x.drv->B_hash() != b_hash0) add_viol(o, "C07", "B_modified_without_scaling", fmt("equed=%d trans=%d", xo.equed, op.x.trans), opi); }
    else for (int j = 0; j < nrhs; ++j) for (int i = 0; i < n; ++i) {
        ld sc = notran ? xo.R[i] : xo.C[i];
        cld want = Bin[(size_t)j * n + i] * sc;
        if (absl_(Bout[(size_t)j * n + i] - want) > 2 * eps * absl_(want)) { add_viol(o, "C07", "B_not_scaled_as_reported", fmt("B(%d,%d) equed=%d trans=%d", i, j, xo.equed, op.x.trans), opi); j = nrhs; break; }
    }
    if (x.drv->X_hash() == x_hash0 && nrhs > 0) add_viol(o, info == n + 1 ? "C12" : "C07", "X_not_delivered", fmt("info=%ld", info), opi);
    // ---- the equilibrated system and its factors
    Dense Ms = csc_to_dense(c.M, Aout);                      // scaled CSC view (what was factored)
    Dense As = c.stype_nr ? transpose(Ms) : Ms;              // user's orientation, scaled
    int t = op.x.trans;
    Dense Aeff_orig = t == 0 ? Aorig : t == 1 ? transpose(Aorig) : conj_transpose(Aorig);
    Dense Aeff_s = t == 0 ? As : t == 1 ? transpose(As) : conj_transpose(As);
    RefInfo ris = ref_analyse(As, true);
    if (ris.singular) { o.excl["ref_singular_after_scaling"]++; return; }
    LUDump d; x.drv->dump_LU(d);
    std::vector<int> pr = x.drv->get_perm_r(), pc = x.drv->get_perm_c();
    Dense L, U;
    if (!d.ok || !is_perm(pr, n) || !is_perm(pc, n) || !expand_LU(d, L, U)) { add_viol(o, "C09", "structure", "factors unusable after expert driver: " + d.why, opi); return; }
    if (!finite_factors(L, U, c.prec)) { o.excl["overflow_in_factors"]++; return; }
    if (!factored) {
        std::vector<std::string> es; check_structure(d, pr, pc, es);
        for (auto &e : es) add_viol(o, "C09", "structure", e, opi);
        FactorCheck fc; check_factor(Ms, pr, pc, L, U, c.prec, op.x.u, op.x.usepr != 0, true, fc);
        for (auto &e : fc.errs_a) add_viol(o, "C02", "reconstruction", e, opi);
        for (auto &e : fc.errs_b) add_viol(o, "C02", "multiplier_bound", e, opi);
        for (auto &e : fc.errs_c) add_viol(o, "C02", "diagonal_preference", e, opi);
        o.probes["factorizations_checked"]++;
    }
    st.valid = true; st.equed = xo.equed; st.R = xo.R; st.C = xo.C; st.lu_hash = d.bits_hash; st.pr = pr; st.pc = pc;
    // growth = max|L||U| / max|A_s|
    ld maxA = 0, maxW = 0;
    for (auto &v : Ms.a) maxA = std::max(maxA, absl_(v));
    for (int i = 0; i < n; ++i) for (int j = 0; j < n; ++j) { ld w = 0; int km = std::min(i, j); for (int k = 0; k <= km; ++k) w += absl_(L.at(i, k)) * absl_(U.at(k, j)); maxW = std::max(maxW, w); }
    ld growth = maxA > 0 ? maxW / maxA : 1;
    ld cond_used = notran == !c.stype_nr ? ris.cond1 : ris.condinf;   // placeholder, refined below
    // norm selection: 1-norm of the user's A when A X = B is solved, inf-norm when a transposed system is solved
    bool user_notran = (t == 0);
    cond_used = user_notran ? ris.cond1 : ris.condinf;
    bool contracting = cond_used * growth * n * ee <= 1e-3L;
    if (contracting) o.probes["svx_contracting_class"]++; else o.excl["svx_not_contracting"]++;
    std::vector<cld> X = x.drv->get_X();
    bool xfinite = true; for (auto &v : X) if (!(absl_(v) < INFINITY)) xfinite = false;
    // row variation sigma(A,x) = max_i(|A||x|+|b|)_i / min_i(...)_i of the equilibrated system: fixed-precision refinement
    // only reaches a backward error of order (n+1)eps when cond * sigma * eps is small (Higham, Accuracy and Stability, Thm 12.4)
    ld sigma = 1;
    if (xfinite) for (int j = 0; j < nrhs; ++j) {
        ld mx = 0, mn = INFINITY;
        for (int i = 0; i < n; ++i) {
            ld sc = 1; if (notran && colequ) sc = xo.C[i]; else if (!notran && rowequ) sc = xo.R[i];
            (void)sc;
        }
        for (int i = 0; i < n; ++i) {
            ld den = absl_(Bout[(size_t)j * n + i]);
            for (int k = 0; k < n; ++k) {
                ld sc = 1; if (notran && colequ) sc = xo.C[k]; else if (!notran && rowequ) sc = xo.R[k];
                den += absl_(Aeff_s.at(i, k)) * absl_(X[(size_t)j * n + k]) / sc;
            }
            mx = std::max(mx, den); mn = std::min(mn, den);
        }
        if (mn > 0) sigma = std::max(sigma, mx / mn); else sigma = INFINITY;
    }
    bool skeel_ok = cond_used * sigma * (n + 1) * ee <= 1e-3L;
    if (contracting && !skeel_ok) o.excl["row_variation_too_large_for_tight_berr"]++;
    // ---- C07: X solves the original system
    if (nrhs > 0 && xfinite) {
        std::vector<ld> w = true_berr(Aeff_orig, Bin, X, nrhs);
        if (contracting && skeel_ok) for (int j = 0; j < nrhs; ++j)
            if (!(w[j] <= (4.0L * (n + 1) + 8) * ee)) { add_viol(o, "C07", "backward_error_of_X", fmt("rhs %d: componentwise backward error %.3Le > %.3Le (trans=%d %s fact=%d equed=%d)", j, w[j], (4.0L * (n + 1) + 8) * ee, t, c.stype_nr ? "NR" : "NC", op.x.fact, xo.equed), opi); break; }
    } else if (nrhs > 0) { if (contracting) add_viol(o, "C07", "nonfinite_solution", "X has non-finite entries in the contracting class", opi); else o.excl["solution_overflows_precision"]++; }
    // ---- C07 (all classes): unrefined solve with the returned factors, on the scaled system
    if (nrhs > 0) {
        // B currently holds the scaled right-hand side; solve it in place with ?gstrs
        std::vector<cld> Bs = Bout;
        long gi = x.drv->call_gstrs(t);
        if (gi != 0) add_viol(o, "C07", "gstrs_rejects_trans", fmt("?gstrs returned info=%ld for trans=%d", gi, t), opi);
        else {
            std::vector<cld> Xu = x.drv->get_B();
            bool fin = true; for (auto &v : Xu) if (!(absl_(v) < INFINITY)) fin = false;
            if (fin) {
                std::vector<std::string> se; ld mr = 0;
                // factors are those of the scaled CSC view; the system solved is op(A_s)
                Dense AeffM; bool etrans;
                if (!c.stype_nr) { AeffM = Aeff_s; etrans = t != 0; } else { AeffM = Aeff_s; etrans = t == 0; }
                check_solve(AeffM, etrans, pr, pc, L, U, Bs, Xu, nrhs, c.prec, se, &mr);
                for (auto &e : se) add_viol(o, "C07", "unrefined_residual", e + fmt(" (trans=%d %s)", t, c.stype_nr ? "NR" : "NC"), opi);
                o.probes["svx_unrefined_solves_checked"]++;
            } else o.excl["solution_overflows_precision"]++;
        }
    }
    // ---- C12: rcond, info = n+1, pivot growth
    {
        if ((info == n + 1) != (xo.rcond < eps)) add_viol(o, "C12", "info_n_plus_1_rule", fmt("info=%ld rcond=%.3Le eps=%.3Le", info, xo.rcond, eps), opi);
        if (info == n + 1) o.probes["svx_info_n_plus_1"]++;
        // reference bounds
        const Dense &inv = ris.inv;
        ld normA = user_notran ? ris.norm1 : ris.norminf;
        ld ninv = 0, nev = 0;
        if (user_notran) { for (int j = 0; j < n; ++j) { ld sc = 0; for (int i = 0; i < n; ++i) sc += absl_(inv.at(i, j)); ninv = std::max(ninv, sc); }
                           for (int i = 0; i < n; ++i) { cld sr = 0; for (int j = 0; j < n; ++j) sr += inv.at(i, j); nev += absl_(sr) / n; } }
        else { for (int i = 0; i < n; ++i) { ld sr = 0; for (int j = 0; j < n; ++j) sr += absl_(inv.at(i, j)); ninv = std::max(ninv, sr); }
               for (int j = 0; j < n; ++j) { cld sc = 0; for (int i = 0; i < n; ++i) sc += inv.at(i, j); nev += absl_(sc) / n; } }
        bool admitted = cond_used * growth * n * ee <= 1e-3L && op.x.u >= 0.1;
        if (admitted && normA > 0 && ninv > 0) {
            ld lo = 1 / (normA * ninv), hi = 1 / (normA * nev), tau = 1e-2L;
            o.probes["svx_rcond_checked"]++;
            if (x.ro.verbose) {
                // direct test of the sparse triangular solves against the dense factors
                for (int which = 0; which < 2; ++which) {
                    std::vector<cld> v(n); for (int i = 0; i < n; ++i) v[i] = cld(1.0L / n, 0);
                    std::vector<cld> ref = v;
                    if (which == 0) { for (int i = 0; i < n; ++i) { cld s2 = ref[i]; for (int j = 0; j < i; ++j) s2 -= L.at(i, j) * ref[j]; ref[i] = s2; } x.drv->call_trsv("L", "N", "U", v); }
                    else { for (int i = n - 1; i >= 0; --i) { cld s2 = ref[i]; for (int j = i + 1; j < n; ++j) s2 -= U.at(i, j) * ref[j]; ref[i] = s2 / U.at(i, i); } x.drv->call_trsv("U", "N", "N", v); }
                    ld dmax = 0, rmax = 0; for (int i = 0; i < n; ++i) { dmax = std::max(dmax, absl_(v[i] - ref[i])); rmax = std::max(rmax, absl_(ref[i])); }
                    fprintf(stderr, "[trsv %s] max diff %.3Le (ref max %.3Le)\n", which ? "U" : "L", dmax, rmax);
                }
                // dense (LU)^{-1} norm for comparison
                Dense LUm(n); for (int i = 0; i < n; ++i) for (int j = 0; j < n; ++j) { cld r = 0; int km = std::min(i, j); for (int k = 0; k <= km; ++k) r += L.at(i, k) * U.at(k, j); LUm.at(i, j) = r; }
                RefInfo rl = ref_analyse(LUm, false);
                fprintf(stderr, "[rcond] op %d equed %d trans %d normA %.6Le ninv %.6Le nev %.6Le rcond %.6Le lo %.6Le hi %.6Le cond1(LU) %.6Le condinf(LU) %.6Le norm1(LU) %.6Le\n", opi, xo.equed, t, normA, ninv, nev, xo.rcond, lo, hi, rl.cond1, rl.condinf, rl.norm1);
            }
            if (!(xo.rcond >= lo * (1 - tau))) add_viol(o, "C12", "rcond_below_true_reciprocal_condition", fmt("rcond=%.6Le < 1/(|A||inv A|)=%.6Le (norm %s, trans=%d %s, cond %.3Le growth %.3Le n %d)", xo.rcond, lo, user_notran ? "1" : "inf", t, c.stype_nr ? "NR" : "NC", cond_used, growth, n), opi);
            if (!(xo.rcond <= hi * (1 + tau))) add_viol(o, "C12", "rcond_above_estimator_upper_bound", fmt("rcond=%.6Le > 1/(|A||inv(A)e/n|)=%.6Le (norm %s, trans=%d %s)", xo.rcond, hi, user_notran ? "1" : "inf", t, c.stype_nr ? "NR" : "NC"), opi);
        } else o.excl["rcond_class_not_admitted"]++;
        // pivot growth recomputed from the returned factors
        std::vector<int> ipc(n); for (int cc = 0; cc < n; ++cc) ipc[pc[cc]] = cc;
        ld rpg = INFINITY;
        bool cpx = prec_is_complex(c.prec);
        // complex magnitudes by |re|+|im|, the convention of ?PivotGrowth (and of LAPACK's CABS1)
        auto mag = [&](cld v) { return cpx ? abs1_(v) : fabsl(v.real()); };
        for (int j = 0; j < n; ++j) {
            ld ma = 0, mu = 0; int cc = ipc[j];
            for (int k = c.M.colptr[cc]; k < c.M.colptr[cc + 1]; ++k) ma = std::max(ma, mag(Aout[k]));
            for (int i = 0; i <= j; ++i) mu = std::max(mu, mag(U.at(i, j)));
            rpg = std::min(rpg, mu == 0 ? 1.0L : ma / mu);
        }
        if (!factored || true) {
            ld tol = (cpx ? 16 : 4) * eps;
            if (!(fabsl(xo.rpg - rpg) <= tol * rpg)) add_viol(o, "C12", "pivot_growth_mismatch", fmt("recip_pivot_growth=%.9Le, recomputed min_j max|A_j|/max|U_j| = %.9Le", xo.rpg, rpg), opi);
            o.probes["svx_rpg_checked"]++;
        }
    }
    // ---- C13: berr truthful, ferr dominating (in the coordinates the driver refined: scaled system, requested transpose)
    if (nrhs > 0 && xfinite) {
        // scaled solution: X_s = X / C (no transpose, column scaled) or X / R (transpose, row scaled)
        std::vector<cld> Xs = X;
        for (int j = 0; j < nrhs; ++j) for (int i = 0; i < n; ++i) {
            ld sc = 1;
            if (notran && colequ) sc = xo.C[i]; else if (!notran && rowequ) sc = xo.R[i];
            Xs[(size_t)j * n + i] = X[(size_t)j * n + i] / sc;
        }
        std::vector<ld> minden;
        std::vector<ld> w = true_berr(Aeff_s, Bout, Xs, nrhs, prec_is_complex(c.prec), &minden);
        // rows whose |A||x|+|b| lies in the underflow range of the working precision (solution components that decay over hundreds of orders
        // of magnitude, e.g. a triangular system with a right-hand side that is zero except at the end): the library evaluates residual and
        // denominator there with gradual underflow and LAPACK's safe1/safe2 shielding, so its berr may be anything up to 1 in those rows
        ld tiny_den = (prec_is_single(c.prec) ? (ld)1.1754944e-38L : (ld)2.2250738585072014e-308L) * (n + 1) / (eps * eps);
        // exact solution of the system the driver refined (equilibrated data as stored), mapped back like X
        std::vector<cld> Xref;
        bool haveref = ref_solve(Aeff_s, Bout, nrhs, Xref);
        if (haveref) for (int j = 0; j < nrhs; ++j) for (int i = 0; i < n; ++i) {
            ld sc = 1;
            if (notran && colequ) sc = xo.C[i]; else if (!notran && rowequ) sc = xo.R[i];
            Xref[(size_t)j * n + i] *= sc;
        }
        for (int j = 0; j < nrhs; ++j) {
            ld b = xo.berr[j], f = xo.ferr[j];
            // the forward bound involves an estimate of | |inv A| (...) |, which need not be representable in the working precision once the
            // matrix is singular to working precision (info = n+1): ferr is asserted finite only inside the class of the property's ferr claim
            bool ferr_class = cond_used < 0.1L / eps;
            if (!(b >= 0) || (ferr_class && (!(f >= 0) || !(f < INFINITY)))) { add_viol(o, "C13", "bounds_not_finite_nonnegative", fmt("berr=%.3Le ferr=%.3Le", b, f), opi); break; }
            if (!ferr_class && (!(f >= 0) || !(f < INFINITY))) o.excl["ferr_not_finite_outside_admitted_class"]++;
            if (minden[j] < tiny_den) { o.excl["berr_rows_in_underflow_range"]++; continue; }
            ld tol = 2.0L * (n + 2) * ee + 1e-6L * w[j];
            if (!(fabsl(b - w[j]) <= tol)) { add_viol(o, "C13", "berr_not_truthful", fmt("rhs %d: berr=%.6Le but true componentwise backward error of the returned X is %.6Le (trans=%d %s equed=%d)", j, b, w[j], t, c.stype_nr ? "NR" : "NC", xo.equed), opi); break; }
            o.probes["svx_berr_checked"]++;
            if (op.x.u >= 0.1 && cond_used < 1 / sqrtl(eps) && growth * n * ee * cond_used <= 1e-3L && skeel_ok) {
                if (!(b <= 4.0L * (n + 1) * ee)) { add_viol(o, "C13", "berr_not_small", fmt("rhs %d: berr=%.3Le > 4(n+1)eps=%.3Le, cond=%.3Le", j, b, 4.0L * (n + 1) * ee, cond_used), opi); break; }
                o.probes["svx_berr_small_checked"]++;
            }
            if (haveref && op.x.u >= 0.1 && cond_used < 0.1L / eps && growth * n * ee <= 1e-3L) {
                ld en = 0, xn = 0;
                for (int i = 0; i < n; ++i) { en = std::max(en, absl_(X[(size_t)j * n + i] - Xref[(size_t)j * n + i])); xn = std::max(xn, absl_(X[(size_t)j * n + i])); }
                if (xn > 0 && !(en / xn <= 10 * f + 4 * eps)) { add_viol(o, "C13", "ferr_does_not_dominate", fmt("rhs %d: |X-Xtrue|/|X|=%.3Le > 10*ferr=%.3Le (cond=%.3Le trans=%d equed=%d)", j, en / xn, 10 * f, cond_used, t, xo.equed), opi); break; }
                o.probes["svx_ferr_checked"]++;
            }
        }
    }
}

// C08: pivot reuse.  If every old pivot clearly passes the threshold in a long-double elimination that follows the old row
// order, perm_r must come back unchanged; if that cannot be decided with a safe margin nothing is asserted.
void eval_usepr(Ctx &x, int opi, const OpSpec &op, const std::vector<int> &pr_old) {
    Case &c = x.c; Outcome &o = x.out; int n = c.M.n;
    std::vector<int> pr = x.drv->get_perm_r(), pc = x.drv->get_perm_c();
    if (!is_perm(pr_old, n) || !is_perm(pc, n)) { o.excl["usepr_old_perm_unusable"]++; return; }
    std::vector<cld> vals = x.drv->get_A_values();
    Dense Md = csc_to_dense(c.M, vals);
    Dense P(n);
    for (int i = 0; i < n; ++i) for (int j = 0; j < n; ++j) P.at(pr_old[i], pc[j]) = Md.at(i, j);
    bool cpx = prec_is_complex(c.prec);
    auto mag = [&](cld v) { return cpx ? abs1_(v) : absl_(v); };
    ld u = prec_is_single(c.prec) ? (ld)(float)op.x.u : (ld)op.x.u;
    ld maxA = 0; for (auto &v : P.a) maxA = std::max(maxA, absl_(v));
    int verdict = 1; // 1 all clearly pass, 0 unclear, -1 some clearly fails
    ld maxel = maxA;
    for (int j = 0; j < n && verdict == 1; ++j) {
        ld mx = 0; for (int i = j; i < n; ++i) mx = std::max(mx, mag(P.at(i, j)));
        ld p = mag(P.at(j, j));
        if (mx == 0) { verdict = 0; break; }
        if (u > 0) { if (p >= u * mx * (1 + 1e-3L)) {} else if (p < u * mx * (1 - 1e-3L)) verdict = -1; else verdict = 0; }
        else { if (p > 1e-6L * mx) {} else verdict = 0; }
        if (verdict != 1) break;
        cld d = P.at(j, j);
        for (int i = j + 1; i < n; ++i) { cld l = P.at(i, j) / d; if (l != cld(0, 0)) for (int k = j + 1; k < n; ++k) { P.at(i, k) -= l * P.at(j, k); maxel = std::max(maxel, absl_(P.at(i, k))); } }
    }
    // the working-precision values must stay within the margin of the reference ones
    const RefInfo ri = ref_analyse(Md, false);
    ld growth = maxA > 0 ? maxel / maxA : 1;
    bool safe = !ri.singular && ri.cond1 * growth * n * eps_eff(c.prec) <= 1e-5L;
    if (verdict == 1 && safe) {
        o.probes["usepr_all_old_pivots_pass"]++;
        if (pr != pr_old) add_viol(o, "C08", "perm_r_changed_although_old_pivots_pass", fmt("u=%.3g: every old pivot clearly passes the threshold but perm_r was changed", op.x.u), opi);
    } else if (verdict == -1) { o.probes["usepr_old_pivot_fails"]++; if (pr != pr_old) o.probes["usepr_fell_back_new_perm"]++; }
    else o.excl["usepr_unclear"]++;
}

// C08: solve with existing factors through ?gstrs (computational route)
void eval_gstrs(Ctx &x, int opi, const OpSpec &op, long info, const std::vector<cld> &Bin, uint64_t a_hash0, uint64_t lu_hash0,
                const std::vector<int> &pr0, const std::vector<int> &pc0) {
    Case &c = x.c; Outcome &o = x.out; int n = c.M.n;
    if (info != 0) { add_viol(o, "C08", "gstrs_info", fmt("?gstrs returned info=%ld trans=%d", info, op.x.trans), opi); return; }
    if (x.drv->A_hash() != a_hash0) add_viol(o, "C08", "A_modified_by_solve", "?gstrs changed A", opi);
    LUDump d; x.drv->dump_LU(d);
    if (!d.ok || d.bits_hash != lu_hash0) add_viol(o, "C08", "LU_modified_by_solve", "factors changed by a solve-only call", opi);
    std::vector<int> pr = x.drv->get_perm_r(), pc = x.drv->get_perm_c();
    if (pr != pr0 || pc != pc0) add_viol(o, "C08", "perm_modified_by_solve", "permutations changed by a solve-only call", opi);
    Dense L, U;
    if (!d.ok || !is_perm(pr, n) || !is_perm(pc, n) || !expand_LU(d, L, U) || !finite_factors(L, U, c.prec)) return;
    std::vector<cld> X = x.drv->get_B();
    for (auto &v : X) if (!(absl_(v) < INFINITY)) { o.excl["solution_overflows_precision"]++; return; }
    Dense Md = csc_to_dense(c.M, x.drv->get_A_values());
    int t = op.x.trans; Dense Aeff; bool etrans;
    if (!c.stype_nr) { Aeff = t == 0 ? Md : t == 1 ? transpose(Md) : conj_transpose(Md); etrans = t != 0; }
    else { Aeff = t == 0 ? transpose(Md) : t == 1 ? Md : conj_dense(Md); etrans = t == 0; }
    std::vector<std::string> se; ld mr = 0;
    check_solve(Aeff, etrans, pr, pc, L, U, Bin, X, c.nrhs, c.prec, se, &mr);
    for (auto &e : se) add_viol(o, "C08", "residual_after_factor_reuse", e, opi);
    o.probes["factor_reuse_solves_checked"]++;
}

// C14: workspace modes and allocation failure (profile alloc)
void eval_alloc(Ctx &x, int opi, const OpSpec &op, long info, const XOut &xo, const std::vector<cld> &Ain, const std::vector<cld> &Bin,
                uint64_t a_hash0, uint64_t b_hash0, uint64_t x_hash0, long init_events, long tasks_created, long fired, SvxState &st) {
    Case &c = x.c; Outcome &o = x.out; int n = c.M.n;
    long mode = c.tags.count("alloc_mode") ? c.tags["alloc_mode"] : 0;
    bool last = opi + 1 == (int)c.ops.size();
    // two-call configurations: the first call is a fault-free first factorization (in the caller workspace of the configuration, which in
    // mode 5 may be too small for it)
    if (!last) mode = mode == 5 ? 5 : op.x.lwork > 0 ? 2 : 0;
    if (last) o.probes[std::string("alloc_mode_") + std::to_string(mode)]++;
    if (last && c.ops.size() > 1 && mode == 5 && ((op.kind == OP_GSSVX) ? (info > n + 1) : (info > n))) o.probes["alloc_second_call_workspace_exhausted"]++;
    if (last && c.ops.size() > 1) o.probes[op.x.refact ? "alloc_second_call_refactorization" : op.x.fact == 2 ? "alloc_second_call_factored" : "alloc_second_call_other"]++;
    if (mode == 1 && op.kind == OP_GSSVX) {   // query
        o.probes["workspace_queries"]++;
        if (init_events != 0 || tasks_created != 0) add_viol(o, "C14", "query_factorizes", fmt("lwork=-1 started a factorization (%ld) or created %ld threads", init_events, tasks_created), opi);
        if (!(xo.mem_total_needed > 0)) add_viol(o, "C14", "query_no_estimate", fmt("total_needed=%g", xo.mem_total_needed), opi);
        if (x.drv->A_hash() != a_hash0 && op.x.fact == 0) add_viol(o, "C14", "query_modifies_A", "lwork=-1 changed A", opi);
        if (x.drv->X_hash() != x_hash0) add_viol(o, "C14", "query_modifies_X", "lwork=-1 changed X", opi);
        return;
    }
    bool faulty = mode >= 3;
    if (faulty && (mode == 3 || mode == 4)) { if (fired > 0) o.probes["alloc_fault_runs_fired"]++; else o.probes["alloc_fault_not_reached"]++; }
    bool mem_fail = (op.kind == OP_GSSVX) ? (info > n + 1) : (info > n);
    if (mem_fail) {
        if (!faulty && mode != 2) add_viol(o, "C14", "memory_failure_without_fault", fmt("info=%ld n=%d", info, n), opi);
        else o.probes["returned_info_gt_n"]++;
        // objects must not be used by the caller; nothing else to check
        return;
    }
    if (info < 0) { add_viol(o, "C14", "negative_info", fmt("info=%ld", info), opi); return; }
    // the call claims success (or a numerical verdict): the result must be right
    if (faulty && fired > 0) o.probes["succeeded_despite_failed_request"]++;
    if (mode == 5) o.probes["workspace_size_sufficient_after_all"]++;
    size_t nv0 = o.viols.size();
    if (op.kind == OP_GSSV) {
        if (x.drv->A_hash() != a_hash0) add_viol(o, "C14", "A_modified", "simple driver changed A", opi);
        std::vector<cld> X = x.drv->get_B();
        eval_factorization(x, opi, op, info, info == 0, Bin, X, 0, true);
    } else {
        eval_svx(x, opi, op, xo, Ain, Bin, a_hash0, b_hash0, x_hash0, st);
        if (op.x.lwork > 0) {
            o.probes["user_workspace_calls"]++;
            if (!xo.work_guard_ok) add_viol(o, "C14", "workspace_guard_overwritten", "bytes outside the caller workspace were modified", opi);
            if (!xo.lu_inside_work) add_viol(o, "C14", "LU_outside_workspace", "outside the caller workspace: " + xo.lu_outside_which, opi);
        }
    }
    if (faulty) for (size_t i = nv0; i < o.viols.size(); ++i) if (o.viols[i].prop != "C14") { o.viols[i].detail = "after an injected fault the call returned as if it had succeeded: " + o.viols[i].detail; }
}

std::vector<cld> strip_ld(const std::vector<cld> &b, int n, int ldb, int nrhs) {
    std::vector<cld> o((size_t)n * nrhs);
    for (int j = 0; j < nrhs; ++j) for (int i = 0; i < n; ++i) o[(size_t)j * n + i] = b[(size_t)j * ldb + i];
    return o;
}

static uint64_t ld_bits(ld v) { double d = (double)v; uint64_t u; memcpy(&u, &d, sizeof u); return u; }
void fold_outputs(Ctx &x, long info, const XOut *xo = nullptr) {
    auto ob = [&](uint64_t v) { sim::obs(v); x.out.h_out = sim::mix(x.out.h_out, v); };
    ob((uint64_t)info + 77);
    if (xo) {   // every scalar and vector the expert driver reports belongs to the observable outcome
        ob((uint64_t)xo->equed + 1234); ob(ld_bits(xo->rpg)); ob(ld_bits(xo->rcond));
        for (ld v : xo->ferr) ob(ld_bits(v));
        for (ld v : xo->berr) ob(ld_bits(v));
        if (xo->equed == 1 || xo->equed == 3) for (ld v : xo->R) ob(ld_bits(v));
        if (xo->equed == 2 || xo->equed == 3) for (ld v : xo->C) ob(ld_bits(v));
    }
    for (int v : x.drv->get_perm_r()) ob((uint64_t)v + 3);
    for (int v : x.drv->get_perm_c()) ob((uint64_t)v + 5);
    ob(x.drv->B_hash()); ob(x.drv->X_hash());
    if (x.drv->have_LU()) { LUDump d; x.drv->dump_LU(d); ob(d.ok ? d.bits_hash : 1); }
}

} // namespace

Outcome run_case(Case &c, const RunnerOpts &ro) {
    Outcome out;
    Ctx x(c, out, ro);
    g_case = &c; g_out = &out; g_op = -1;
    int n = c.M.n;
    {   // sample description
        J s = J::obj();
        s.set("profile", c.profile).set("prec", prec_name(c.prec)).set("n", n).set("nnz", (long long)c.M.nnz()).set("family", c.family)
         .set("values", c.valclass).set("storage", c.stype_nr ? "NR" : "NC").set("nrhs", c.nrhs).set("colperm", c.colperm);
        J ops = J::arr();
        for (auto &op : c.ops) {
            J q = J::obj();
            q.set("op", opkind_name(op.kind)).set("nprocs", op.x.nprocs).set("u", op.x.u).set("w", (long long)op.ienv[1]).set("relax", (long long)op.ienv[2])
             .set("maxsuper", (long long)op.ienv[3]).set("strategy", op.sched.strategy).set("dyn", op.dyn_snode);
            ops.push(q);
        }
        s.set("ops", ops);
        out.sample = s;
    }
    // context class: the stored pattern itself is structurally singular (the symbolic preprocessing assumes it is not)
    bool stored_singular = false;
    { std::vector<int> id(n); for (int j = 0; j < n; ++j) id[j] = j; stored_singular = n > 0 && first_struct_deficient(c.M, id) > 0; }
    if (stored_singular) out.probes["cfg_structurally_singular_pattern"]++;
    g_sig_suffix = stored_singular ? "@structurally_singular_pattern" : "";
    if (!g_sig_suffix.empty() && sim::result_fd >= 0) { std::string t = "T " + g_sig_suffix + "\n"; if (write(sim::result_fd, t.data(), t.size()) < 0) {} }
    x.drv.reset(make_drv(c.prec));
    Drv &drv = *x.drv;
    drv.set_matrix(c.M, c.stype_nr);
    if (c.colperm == 4 && (int)c.user_perm_c.size() == n) drv.set_perm_c(c.user_perm_c);
    else drv.get_perm_c_lib(c.colperm <= 3 ? c.colperm : 0);
    x.base_perm_c = drv.get_perm_c();
    if (!is_perm(x.base_perm_c, n)) add_viol(out, "C10", "ordering_not_bijection", "get_perm_c result is not a permutation", -1);

    SvxState svx_state;
    bool last_fact_ok = false, last_fact_singular = false, skip_rest = false, factors_layout_tagged = false;
    bool leakprof = c.profile == "leak" || c.profile == "symleak";
    if (leakprof) sim::forget_live_blocks();
    int reps = leakprof ? 2 : 1;
    bool symprof = c.profile == "sym" || c.profile == "symleak";
    size_t live_after_rep[2] = {0, 0};
    for (int rep = 0; rep < reps; ++rep) {
    if (leakprof && c.colperm <= 3) {
        // the ordering call belongs to the accounted sequence too (get_perm_c has its own early returns)
        sim::RunConfig c0; c0.step_budget = 1L << 40;
        sim::begin_run(c0); sim::reset_alloc_count(); sim::arm_alloc(true);
        drv.get_perm_c_lib(c.colperm);
        sim::arm_alloc(false); sim::RunStats s0; sim::end_run(s0);
        out.probes["ordering_calls_leak_checked"]++;
        {   // a format helper users call around the drivers: everything it allocates besides the three returned arrays must be gone
            sim::begin_run(c0); sim::arm_alloc(true);
            bool empty = (c.seed + rep) % 3 == 0;
            bool ok = drv.call_comprow_to_compcol(empty);
            sim::arm_alloc(false); sim::end_run(s0);
            out.probes["helper_conversion_calls_leak_checked"]++; if (empty) out.probes["helper_conversion_calls_empty_matrix"]++;
            if (!ok) add_viol(out, "C19", "comprow_to_compcol_wrong", "?CompRow_to_CompCol did not return the column-compressed form of the matrix", -1);
        }
        if (c.M.nnz() == n) out.probes["ordering_calls_empty_adjacency"]++;
        if (drv.get_perm_c() != x.base_perm_c) add_viol(out, "C10", "ordering_not_repeatable", "get_perm_c gave a different permutation for the same pattern", -1);
    }
    for (int opi = 0; opi < (int)c.ops.size(); ++opi) {
        OpSpec &op = c.ops[opi];
        if (skip_rest) break;
        if (ro.between && rep == 0 && opi == ro.between_after + 1) {
            // unrelated library calls between a factorization and the solves that reuse its factors (C18)
            const Case *sc = g_case; Outcome *so = g_out; std::string ss = g_sig_suffix;
            ro.between();
            g_case = sc; g_out = so; g_sig_suffix = ss;
        }
        g_op = opi;
        // reusing factors is only legitimate after a factorization that succeeded
        if ((op.kind == OP_GSSVX && op.x.fact == 2) || op.kind == OP_GSTRS) {
            if (!last_fact_ok) { out.excl["op_skipped_no_valid_factors"]++; continue; }
        }
        for (int i = 0; i < 9; ++i) g_ienv[i] = op.ienv[i];
        g_sig_suffix = std::string(stored_singular ? "@structurally_singular_pattern" : "");   // (the class sp_ienv(3) < sp_ienv(2) had a tag until D14 was repaired)
        if (!g_sig_suffix.empty() && sim::result_fd >= 0) { std::string t = "T " + g_sig_suffix + "\n"; if (write(sim::result_fd, t.data(), t.size()) < 0) {} }
        if (op.ienv[3] < op.ienv[2]) out.probes["cfg_maxsuper_lt_relax"]++;
        if (op.x.sym_mode) { g_sig_suffix += "@symmetric_mode"; out.probes["cfg_symmetric_mode"]++; }
        if (prec_is_complex(c.prec) && c.stype_nr && op.x.trans == 2 && (op.kind == OP_GSSVX || op.kind == OP_GSTRS || op.kind == OP_ROUTE)) { out.probes["cfg_complex_rowwise_conj"]++; }   /* D19 (repaired): no context tag any more */
        {   // operations that reuse factors inherit the layout class (a precondition of a listed finding) of the factorization that produced them
            bool reuses = (op.kind == OP_GSSVX && op.x.fact == 2) || op.kind == OP_GSTRS;
            if (reuses && factors_layout_tagged) g_sig_suffix += "@relaxed_snode_inside_h_supernode";
        }
        if (op.dyn_snode) setenv("SuperLU_DYNAMIC_SNODE_STORE", "1", 1); else unsetenv("SuperLU_DYNAMIC_SNODE_STORE");
        bool factorizing = (op.kind == OP_GSSV) || (op.kind == OP_ROUTE) || (op.kind == OP_GSSVX && op.x.fact != 2);
        // a factorization starts from the caller's matrix (an earlier EQUILIBRATE call may have scaled A in place)
        if (op.values_id != x.cur_values || factorizing) { drv.set_values(c.values[op.values_id]); x.cur_values = op.values_id; }
        bool first_time = (op.kind == OP_GSSV) || ((op.kind == OP_GSSVX) && op.x.fact != 2 && !op.x.refact) || (op.kind == OP_ROUTE && !op.x.refact);
        if (first_time) drv.set_perm_c(x.base_perm_c);
        const std::vector<cld> &rhs = c.rhs[op.rhs_id < (int)c.rhs.size() ? op.rhs_id : 0];
        if (op.kind == OP_GSSV || op.kind == OP_GSSVX || op.kind == OP_ROUTE || op.kind == OP_GSTRS) drv.set_rhs(rhs, c.nrhs, c.ldb);
        std::vector<cld> Bin = strip_ld(rhs, n, c.ldb, c.nrhs);
        uint64_t a_hash0 = drv.A_hash(), b_hash0 = drv.B_hash(), x_hash0 = drv.X_hash();
        std::vector<cld> A_before = drv.get_A_values();
        std::vector<int> pr_before = drv.get_perm_r(), pc_before = drv.get_perm_c();
        uint64_t lu_hash_before = 0;
        if (drv.have_LU() && (op.kind == OP_GSTRS)) { LUDump d0; drv.dump_LU(d0); lu_hash_before = d0.ok ? d0.bits_hash : 0; }

        sim::RunConfig cfg;
        cfg.sched = op.sched; cfg.faults = op.faults; cfg.forced = op.forced; cfg.use_forced = op.use_forced;
        long budget = op.step_budget;
        if (budget <= 0) budget = ro.baseline_steps > 0 ? 64 * ro.baseline_steps + 10000 : 200000 + 400L * n * n + 4000L * n * op.x.nprocs;
        cfg.step_budget = budget;
        cfg.fill = (uint8_t)(0xA1 + (c.seed % 5) * 0x11);
        {   // OpenMP flavour: size of the simulated team (a function of the schedule seed and nprocs, so replays need nothing extra).
            // The loop over nprocs "threads" is divided statically among the team: with a smaller team one OS thread runs several
            // p?gstrf_thread() instances one after the other, with a larger one the extra members get no iteration.
            sim::Rng rt(sim::derive(op.sched.seed, 991));
            int w = (int)rt.below(100), P = std::max(1, op.x.nprocs);
            cfg.omp_team = w < 60 ? P : w < 85 ? (int)rt.range(1, P) : P + (int)rt.range(1, 3);
        }
        sim::reset_captured_stderr();
        if (c.profile == "alloc") sim::forget_live_blocks();
        monitor_begin_op(c, op, opi);
        sim::begin_run(cfg);
        sim::reset_alloc_count();
        sim::arm_alloc(true);
        long info = 0; XOut xo;
        switch (op.kind) {
        case OP_GSSV: info = drv.call_gssv(op.x.nprocs); break;
        case OP_GSSVX: drv.call_gssvx(op.x, xo); info = xo.info; break;
        case OP_ROUTE: info = drv.call_gstrf_route(op.x, op.do_solve); break;
        case OP_GSTRS: info = drv.call_gstrs(op.x.trans); break;
        case OP_DESTROY: drv.destroy_LU(op.x.lwork > 0); break;
        case OP_ROUTE_FINALIZE: drv.route_finalize(); break;
        }
        sim::arm_alloc(false);
        fold_outputs(x, info, (op.kind == OP_GSSVX && op.x.lwork != -1 && info >= 0 && info <= n + 1) ? &xo : nullptr);
        if (op.kind == OP_GSSVX && op.x.lwork == -1) { uint64_t u; double d = xo.mem_total_needed; memcpy(&u, &d, sizeof u); sim::obs(u); }   // a query's estimate is its result
        sim::RunStats st;
        sim::end_run(st);
        monitor_end_op(out, opi, info);
        out.alloc_requests = st.allocs; out.stack_marks = monitor_stack_marks(); out.mem_total_needed = xo.mem_total_needed;
        { long pk = 0; for (long m : out.stack_marks) pk = std::max(pk, m); out.stack_peaks.push_back(pk); }
        long init_events = monitor_init_events();
        out.h_sched = sim::mix(out.h_sched, st.h_sched); out.h_obs = sim::mix(out.h_obs, st.h_obs); out.h_shape = sim::mix(out.h_shape, st.h_shape);
        out.steps += st.steps; out.decisions += st.decisions; out.switches += st.switches; out.events += st.events;
        if (ro.record) out.decisions_log.push_back(st.decisions_log);
        out.probes["spin_blocks"] += st.spin_blocks; out.probes["mutex_blocks"] += st.mutex_blocks; out.probes["idle_polls"] += st.idle_polls;
        out.probes["tasks_created"] += st.tasks_created;
        out.faults["alloc_fail_fired"] += st.alloc_faults_fired; out.faults["thread_create_fail_fired"] += st.create_faults_fired;
        if (op.x.nprocs > n) out.probes["nprocs_gt_n"]++;
        // C04: thread accounting at return
        if (st.tasks_created != st.tasks_finished || st.tasks_created != st.tasks_joined) {
            add_viol(out, "C04", "threads_left", fmt("created=%ld finished=%ld joined=%ld", st.tasks_created, st.tasks_finished, st.tasks_joined), opi);
            // parked threads cannot be reused: the process has to end here
            sim::die(sim::END_NORMAL, "threads left");
        }
        if (ro.verbose) {
            std::vector<int> pc_ = drv.get_perm_c(), pr_ = drv.get_perm_r();
            fprintf(stderr, "perm_c:"); for (int v : pc_) fprintf(stderr, " %d", v); fprintf(stderr, "\nperm_r:"); for (int v : pr_) fprintf(stderr, " %d", v); fprintf(stderr, "\n");
            if (drv.have_LU()) { LUDump d_; drv.dump_LU(d_); Dense L_, U_; if (expand_LU(d_, L_, U_)) { fprintf(stderr, "diag(U):"); for (int i = 0; i < n; ++i) fprintf(stderr, " %.3Lg", absl_(U_.at(i, i))); fprintf(stderr, "\n"); } }
        }
        if (ro.verbose) fprintf(stderr, "[op %d %s] info=%ld steps=%ld decisions=%ld switches=%ld events=%ld allocs=%ld\n", opi, opkind_name(op.kind), info,
                                st.steps, st.decisions, st.switches, st.events, st.allocs);

        if (op.kind == OP_GSSV || op.kind == OP_ROUTE || (op.kind == OP_GSSVX && op.x.fact != 2 && op.x.lwork != -1)) {
            if (op.x.refact && last_fact_singular) { out.probes["refactorizations_after_singular_factorization"]++; if (op.x.usepr) out.probes["pivot_reuse_after_singular_factorization"]++; }
            last_fact_ok = (info == 0) || (op.kind == OP_GSSVX && info == n + 1);
            last_fact_singular = info > 0 && info <= n;
            factors_layout_tagged = g_sig_suffix.find("@relaxed_snode_inside_h_supernode") != std::string::npos;
        }
        if (c.profile == "forest" && info == 0 && (int)drv.get_etree().size() == n) {
            // the enumeration is over elimination forests: confirm that the library worked on the intended one
            std::vector<long> et = drv.get_etree(); bool same = (int)et.size() == n;
            for (int j = 0; same && j < n; ++j) same = et[j] == c.tags["forest_parent_" + std::to_string(j)];
            out.probes[same ? "forest_etree_as_intended" : "forest_etree_other_numbering"]++;
            out.probes["forest_n" + std::to_string(n)]++;
            { std::string code = "fshape:" + std::to_string(n) + ":"; for (long v : et) code += (char)('0' + (int)v); out.probes[code]++; }
        }
        // ---- oracles
        bool a_same = drv.A_hash() == a_hash0;
        bool histlike = c.profile == "hist" || c.profile == "leak" || c.profile == "carry";
        if (op.kind == OP_DESTROY || op.kind == OP_ROUTE_FINALIZE) continue;
        if ((c.profile == "svx" || symprof || histlike) && op.kind == OP_GSSVX) {
            if (op.x.nprocs <= 0) { out.probes["illegal_argument_calls"]++; if (info != -1) add_viol(out, "C15", "illegal_nprocs_not_reported", fmt("nprocs=%d info=%ld", op.x.nprocs, info), opi); continue; }
            if (op.x.lwork == -1) { out.probes["workspace_queries"]++; continue; }
            if (leakprof && op.x.lwork > 0 && info > n + 1) { out.probes["workspace_too_small_returns"]++; continue; }
            eval_svx(x, opi, op, xo, A_before, Bin, a_hash0, b_hash0, x_hash0, svx_state);
            if (symprof && (info == 0 || info == n + 1)) {
                // C16: every pivot is the original diagonal entry, i.e. the row permutation equals the (final) column permutation
                std::vector<int> pr2 = drv.get_perm_r(), pc2 = drv.get_perm_c();
                out.probes["sym_runs_checked"]++;
                if (c.colperm == 2) { out.probes["sym_runs_mmd_at_plus_a"]++; if (pr2 != pc2) { int bad = 0; for (int i = 0; i < n; ++i) if (pr2[i] != pc2[i]) ++bad; add_viol(out, "C16", "off_diagonal_pivot_in_symmetric_mode", fmt("%d rows have perm_r != perm_c (u=0, row/column dominant values)", bad), opi); } }
                else if (pr2 != pc2) out.probes["sym_other_ordering_offdiag"]++;
            }
            if (op.x.refact && op.x.usepr && (info == 0 || info == n + 1)) eval_usepr(x, opi, op, pr_before);
            if (op.x.refact) out.probes["refactorizations"]++;
            if (op.x.fact == 2) out.probes["factored_calls"]++;
            if (op.x.lwork > 0) { out.probes["user_workspace_calls"]++; if (!xo.work_guard_ok) add_viol(out, "C14", "workspace_guard_overwritten", "bytes outside the caller workspace were modified", opi); if (!xo.lu_inside_work) add_viol(out, "C14", "LU_outside_workspace", "outside the caller workspace: " + xo.lu_outside_which, opi); }
            continue;
        }
        if (histlike && op.kind == OP_GSTRS) { eval_gstrs(x, opi, op, info, Bin, a_hash0, lu_hash_before, pr_before, pc_before); continue; }
        if (histlike && op.kind == OP_ROUTE) {
            if (!a_same) add_viol(out, "C08", "A_modified", "factorization changed A", opi);
            if (info <= -900) add_viol(out, "C01", "gstrs_info", fmt("?gstrs returned info=%ld", info + 1000), opi);
            else { std::vector<cld> X = drv.get_B(); eval_factorization(x, opi, op, info, op.do_solve && info == 0, Bin, X, op.x.trans, !op.x.usepr); }
            if (op.x.refact && op.x.usepr && info == 0) eval_usepr(x, opi, op, pr_before);
            if (op.x.refact) out.probes["refactorizations"]++;
            if (op.x.lwork > 0) out.probes["user_workspace_calls"]++;
            if (info == 0) eval_gscon(x, opi, op);
            continue;
        }
        if (c.profile == "alloc") {
            eval_alloc(x, opi, op, info, xo, A_before, Bin, a_hash0, b_hash0, x_hash0, init_events, st.tasks_created, st.alloc_faults_fired, svx_state);
            if (opi + 1 < (int)c.ops.size()) {
                // two-call configuration: go on to the call under test only if the first factorization delivered factors
                if (info == 0 || (op.kind == OP_GSSVX && info == n + 1)) continue;
                out.probes["alloc_first_call_without_factors"]++;
                skip_rest = true;
            }
            if (drv.have_LU()) drv.destroy_LU(op.x.lwork > 0);
            {   // C17 on every return of the enumeration (query, sufficient, too-small workspace, failed request): nothing may stay behind
                std::vector<sim::LiveBlock> lb; sim::live_blocks(lb);
                out.probes["alloc_returns_leak_checked"]++;
                if (st.alloc_faults_fired > 0) out.probes["alloc_fault_returns_leak_checked"]++;
                if (!lb.empty()) {
                    std::map<std::string, std::pair<long, size_t>> bysite;
                    for (auto &b : lb) { auto &e = bysite[sim::site_name(b.site)]; e.first++; e.second += b.size; }
                    std::string detail; std::string first_site = sim::site_name(lb[0].site);
                    for (auto &kv : bysite) detail += fmt("%s: %ld blocks %zu bytes; ", kv.first.c_str(), kv.second.first, kv.second.second);
                    std::string keep = g_sig_suffix; g_sig_suffix.clear();
                    add_viol(out, "C17", "leak", fmt("info=%ld, %ld failed request(s): %zu blocks still allocated after the destroy calls: ", info, st.alloc_faults_fired, lb.size()) + detail, opi,
                             std::string(st.alloc_faults_fired > 0 ? "leak_after_failed_request:" : "leak:") + first_site);
                    g_sig_suffix = keep;
                    sim::forget_live_blocks();
                }
            }
            continue;
        }
        if (c.profile == "sing") {
            eval_singular(x, opi, op, info, xo, b_hash0, x_hash0, Bin);
            if (op.kind != OP_GSSVX && !a_same) add_viol(out, "C06", "A_modified", "driver changed A", opi);
            if (info == 0 || (op.kind == OP_GSSVX && info == n + 1)) {
                std::vector<cld> X = op.kind == OP_GSSVX ? drv.get_X() : drv.get_B();
                eval_factorization(x, opi, op, 0, false, Bin, X, 0, true);
            }
            // destroy what was returned (under ASan this is the 'safe to destroy' clause)
            if (drv.have_LU()) drv.destroy_LU(false);
            if (op.kind == OP_ROUTE) drv.route_finalize();
            continue;
        }
        if (op.kind == OP_GSSV) {
            if (!a_same) add_viol(out, "C01", "A_modified", "simple driver changed A", opi);
            if (info == 0) {
                std::vector<cld> X = drv.get_B();
                eval_factorization(x, opi, op, info, true, Bin, X, 0, true);
            } else {
                eval_factorization(x, opi, op, info, false, Bin, Bin, 0, false);
                if (info > 0 && info <= n && drv.B_hash() != b_hash0) add_viol(out, "C06", "B_modified_on_singular", fmt("info=%ld", info), opi);
            }
        } else if (op.kind == OP_ROUTE) {
            if (!a_same) add_viol(out, "C02", "A_modified", "factorization changed A", opi);
            if (info <= -900) add_viol(out, "C01", "gstrs_info", fmt("?gstrs returned info=%ld", info + 1000), opi);
            else {
                std::vector<cld> X = drv.get_B();
                eval_factorization(x, opi, op, info, op.do_solve && info == 0, Bin, X, op.x.trans, true);
                if (info == 0) eval_gscon(x, opi, op);
            }
        } else if (op.kind == OP_GSSVX) {
            if (op.x.fact == 0 && !a_same) add_viol(out, "C07", "A_modified", "expert driver with DOFACT changed A", opi);
            long infof = info == n + 1 ? 0 : info;
            if (op.x.fact != 2 && op.x.lwork != -1) {
                std::vector<cld> X = drv.get_X();
                // plain DOFACT path: refined X still has to satisfy the unrefined bound only loosely; checked by C07's profile
                eval_factorization(x, opi, op, infof, false, Bin, X, op.x.trans, true);
            }
        }
    }
    if (leakprof) {
        // C17: after the documented destroy calls nothing allocated inside the library may be left
        std::vector<sim::LiveBlock> lb; sim::live_blocks(lb);
        live_after_rep[rep] = sim::live_bytes();
        out.probes["leak_histories_checked"]++;
        if (!lb.empty()) {
            std::map<std::string, std::pair<long, size_t>> bysite;
            for (auto &b : lb) { auto &e = bysite[sim::site_name(b.site)]; e.first++; e.second += b.size; }
            std::string detail; std::string first_site = sim::site_name(lb[0].site);
            for (auto &kv : bysite) detail += fmt("%s: %ld blocks %zu bytes; ", kv.first.c_str(), kv.second.first, kv.second.second);
            g_sig_suffix.clear();
            add_viol(out, "C17", "leak", fmt("repetition %d: %zu blocks still allocated after the destroy calls: ", rep + 1, lb.size()) + detail, -1, "leak:" + first_site);
            sim::forget_live_blocks();
        }
        // reset driver-side state for the next repetition
        last_fact_ok = false; svx_state = SvxState(); x.cur_values = -1;
    }
    } // repetitions
    monitor_collect(out.viols, -1);
    monitor_probes(out.probes);
    g_case = nullptr; g_out = nullptr; g_sig_suffix.clear();
    if (c.profile == "alloc" && !ro.nested && c.tags.count("alloc_mode") && c.tags["alloc_mode"] == 2 && out.end == sim::END_NORMAL) {
        // C14: with a sufficient caller workspace the results match the internally allocated mode.  With one thread nothing depends on a schedule,
        // so "match" is bit-identity of every output (info, permutations, L, U, X, B, rcond, ferr, berr, ...): the same calls are repeated with lwork = 0
        bool one_thread = true, ws = false;
        for (auto &q : c.ops) { if (q.x.nprocs != 1) one_thread = false; if (q.x.lwork > 0) ws = true; }
        if (one_thread && ws) {
            Case c2 = c; for (auto &q : c2.ops) { q.x.lwork = 0; q.x.work_align = 0; }
            c2.tags["alloc_mode"] = 0;
            RunnerOpts r2; r2.record = false; r2.nested = true;
            const Case *sc = g_case; Outcome *so = g_out; int sop = g_op; std::string ss = g_sig_suffix;
            Outcome o2 = run_case(c2, r2);
            g_case = sc; g_out = so; g_op = sop; g_sig_suffix = ss;
            out.probes["workspace_vs_internal_mode_compared"]++;
            if (o2.end == sim::END_NORMAL && o2.h_out != out.h_out)
                add_viol(out, "C14", "result_differs_between_workspace_modes", "one thread: the outputs with a sufficient caller workspace are not bit-identical to those of the same calls with lwork = 0", (int)c.ops.size() - 1);
        }
    }
    return out;
}
