#include "runner.hh"
#include "monitor.hh"
#include <unistd.h>
#include <fcntl.h>
#include <cstdarg>
#include <memory>

long g_ienv[9] = {0, 8, 4, 32, 16, 8, -50, -50, -30};

static std::string fmt(const char *f, ...) __attribute__((format(printf, 1, 2)));
static std::string fmt(const char *f, ...) { char b[700]; va_list ap; va_start(ap, f); vsnprintf(b, sizeof b, f, ap); va_end(ap); return b; }

static const Case *g_case = nullptr;
static Outcome *g_out = nullptr;
static int g_op = -1;

std::string primary_property(const std::string &profile) {
    if (profile == "ssv") return "C01";
    if (profile == "strf") return "C02";
    if (profile == "sing") return "C06";
    if (profile == "svx") return "C07";
    if (profile == "hist") return "C08";
    if (profile == "cond") return "C12";
    if (profile == "refine") return "C13";
    if (profile == "alloc") return "C14";
    if (profile == "sym") return "C16";
    if (profile == "leak") return "C17";
    if (profile == "carry") return "C18";
    if (profile == "pipe") return "C03";
    if (profile == "term") return "C04";
    if (profile == "mem") return "C05";
    return "C01";
}

static std::string g_sig_suffix; // context tag of the current op (a configuration class with a listed finding)
static void add_viol(Outcome &o, const std::string &prop, const std::string &oracle, const std::string &detail, int op, const std::string &sig = "") {
    if (o.viols.size() >= 12) return;
    Viol v; v.prop = prop; v.oracle = oracle; v.detail = detail; v.op = op; v.sig = (sig.empty() ? oracle : sig) + g_sig_suffix;
    o.viols.push_back(v);
}

static bool has_fault(const OpSpec &op) {
    return op.faults.alloc_fail_from > 0 || op.faults.alloc_fail_only > 0 || op.faults.thread_create_fail >= 0 ||
           op.ienv[6] > 0 || op.ienv[7] > 0 || op.ienv[8] > 0 || (op.x.lwork > 0);
}

static std::string on_die_cb(int endkind, const std::string &detail) {
    static Outcome dummy;
    Outcome &o = g_out ? *g_out : dummy;
    o.end = endkind; o.end_op = g_op; o.end_detail = detail;
    o.stderr_text = sim::read_captured_stderr();
    if (o.stderr_text.size() > 600) o.stderr_text.resize(600);
    std::string prim = g_case ? primary_property(g_case->profile) : "C01";
    const OpSpec *op = (g_case && g_op >= 0 && g_op < (int)g_case->ops.size()) ? &g_case->ops[g_op] : nullptr;
    // monitors may have pending violations
    monitor_collect(o.viols, g_op);
    monitor_probes(o.probes);
    switch (endkind) {
    case sim::END_DEADLOCK: add_viol(o, "C04", "deadlock", detail, g_op); break;
    case sim::END_LIVELOCK: add_viol(o, "C04", "livelock", detail, g_op); break;
    case sim::END_STEP_BUDGET: add_viol(o, "C04", "step_budget", detail, g_op); break;
    case sim::END_ABORT: {
        bool storage = o.stderr_text.find("exceeded; Current column") != std::string::npos;
        bool fault = op && has_fault(*op);
        if (storage) o.probes["abort_storage_exceeded"]++;
        else if (fault) {
            o.probes["abort_under_fault"]++;
            if (o.stderr_text.find_first_not_of(" \n\t") == std::string::npos) add_viol(o, "C14", "abort_without_diagnostic", detail, g_op);
        } else add_viol(o, prim, "unexpected_abort", detail + " stderr=" + o.stderr_text, g_op);
        break;
    }
    case sim::END_MONITOR_STOP: {
        // detail = "PROP|sig|text"
        size_t a = detail.find('|'), b = a == std::string::npos ? a : detail.find('|', a + 1);
        if (b != std::string::npos) add_viol(o, detail.substr(0, a), detail.substr(a + 1, b - a - 1), detail.substr(b + 1), g_op);
        else add_viol(o, prim, "monitor_stop", detail, g_op);
        break;
    }
    default: break;
    }
    static Case dummy_case;
    return "R " + result_line(g_case ? *g_case : dummy_case, o) + "\n";
}

void runner_install() {
    sim::install();
    sim::on_die = on_die_cb;
    monitor_install();
}

// ------------------------------------------------------------------ result serialisation
J outcome_to_j(const Case &c, const Outcome &o, bool with_sched) {
    J j = J::obj();
    j.set("seed", J((long long)c.seed));
    static const char *ends[] = {"normal", "deadlock", "livelock", "step_budget", "abort", "monitor_stop"};
    j.set("end", ends[o.end >= 0 && o.end < 6 ? o.end : 0]);
    if (o.end) { j.set("end_op", o.end_op); j.set("end_detail", o.end_detail); if (!o.stderr_text.empty()) j.set("stderr", o.stderr_text); }
    J vs = J::arr();
    for (auto &v : o.viols) { J x = J::obj(); x.set("p", v.prop).set("o", v.oracle).set("sig", v.sig).set("d", v.detail).set("op", v.op); vs.push(x); }
    j.set("viol", vs);
    J pr = J::obj(); for (auto &kv : o.probes) pr.set(kv.first, J((long long)kv.second)); j.set("probes", pr);
    J ex = J::obj(); for (auto &kv : o.excl) ex.set(kv.first, J((long long)kv.second)); j.set("excl", ex);
    J fa = J::obj(); for (auto &kv : o.faults) fa.set(kv.first, J((long long)kv.second)); j.set("faults", fa);
    char hb[32];
    snprintf(hb, sizeof hb, "%016llx", (unsigned long long)o.h_sched); j.set("hs", hb);
    snprintf(hb, sizeof hb, "%016llx", (unsigned long long)o.h_obs); j.set("ho", hb);
    snprintf(hb, sizeof hb, "%016llx", (unsigned long long)o.h_shape); j.set("hshape", hb);
    j.set("steps", (long long)o.steps).set("decisions", (long long)o.decisions).set("switches", (long long)o.switches).set("events", (long long)o.events);
    if (o.sample.t == J::OBJ) j.set("sample", o.sample);
    if (with_sched) { J a = J::arr(); for (auto &d : o.decisions_log) a.push(rle_to_j(d)); j.set("sched_rle", a); }
    return j;
}
std::string result_line(const Case &c, const Outcome &o) { return outcome_to_j(c, o, false).dump(); }

// ------------------------------------------------------------------ oracle evaluation
namespace {

struct Ctx {
    Case &c; Outcome &out; const RunnerOpts &ro;
    std::unique_ptr<Drv> drv;
    std::vector<int> base_perm_c;
    int cur_values = -1;
    // reference cache per value set
    std::map<int, RefInfo> ref;
    Ctx(Case &c_, Outcome &o_, const RunnerOpts &r_) : c(c_), out(o_), ro(r_) {}
};

const RefInfo &ref_for(Ctx &x, int vid, const Dense &Amath) {
    auto it = x.ref.find(vid);
    if (it != x.ref.end()) return it->second;
    return x.ref[vid] = ref_analyse(Amath, false);
}

bool finite_factors(const Dense &L, const Dense &U, int prec) {
    ld lim = prec_is_single(prec) ? 1e30L : 1e290L;
    for (auto &v : L.a) if (!(absl_(v) < lim)) return false;
    for (auto &v : U.a) if (!(absl_(v) < lim)) return false;
    return true;
}

// factor + structure + (optional) solve oracles after a successful factorization
void eval_factorization(Ctx &x, int opi, const OpSpec &op, long info, bool check_solve_too, const std::vector<cld> &Bin,
                        const std::vector<cld> &Xout, int solve_trans, bool diag_check) {
    Case &c = x.c; Outcome &o = x.out;
    int n = c.M.n;
    const std::vector<cld> &vals = c.values[op.values_id];
    Dense Md = csc_to_dense(c.M, vals);
    Dense Amath = c.stype_nr ? transpose(Md) : Md;
    const RefInfo &ri = ref_for(x, op.values_id, Amath);
    ld eps = prec_eps(c.prec);
    if (info != 0) {
        if (info < 0) { add_viol(o, primary_property(c.profile), "info_negative", fmt("info=%ld", info), opi); return; }
        if (info > n) { add_viol(o, primary_property(c.profile), "info_gt_n_without_fault", fmt("info=%ld n=%d", info, n), opi); return; }
        if (ri.singular) { o.excl["ref_singular"]++; return; }
        if (ri.cond1 > 0.1L / eps) { o.excl["ill_conditioned_info_gt0"]++; return; }
        add_viol(o, "C01", "info_nonzero_on_nonsingular", fmt("info=%ld cond1=%.3Le", info, ri.cond1), opi, "info_nonzero_on_nonsingular");
        return;
    }
    LUDump d; x.drv->dump_LU(d);
    std::vector<int> pr = x.drv->get_perm_r(), pc = x.drv->get_perm_c();
    std::vector<std::string> es;
    check_structure(d, pr, pc, es);
    for (auto &e : es) add_viol(o, "C09", "structure", e, opi);
    o.probes["factorizations_checked"]++;
    if (!es.empty()) { o.probes["structure_bad"]++; }
    if (!is_perm(pr, n) || !is_perm(pc, n)) return;
    Dense L, U;
    if (!expand_LU(d, L, U)) { if (es.empty()) add_viol(o, "C09", "structure", "factors cannot be expanded: " + d.why, opi); return; }
    if (!finite_factors(L, U, c.prec)) { o.excl["overflow_in_factors"]++; return; }
    FactorCheck fc;
    check_factor(Md, pr, pc, L, U, c.prec, op.x.u, op.x.usepr != 0, diag_check, fc);
    for (auto &e : fc.errs_a) add_viol(o, "C02", "reconstruction", e, opi);
    for (auto &e : fc.errs_b) add_viol(o, "C02", "multiplier_bound", e, opi);
    for (auto &e : fc.errs_c) add_viol(o, "C02", "diagonal_preference", e, opi);
    o.excl["diag_tie_band"] += fc.tie_excluded;
    o.probes["diag_checked"] += fc.diag_checked; o.probes["offdiag_pivots"] += fc.offdiag_pivots;
    if (check_solve_too && c.nrhs > 0) {
        // effective matrix of the system that was solved, in terms of the CSC view M
        // NC: op(A) = op(M); NR: A = M^T so op(A): N -> M^T, T -> M, C -> conj(M)
        Dense Aeff; bool etrans;
        int t = solve_trans;
        if (!c.stype_nr) { Aeff = t == 0 ? Md : t == 1 ? transpose(Md) : conj_transpose(Md); etrans = t != 0; }
        else { Aeff = t == 0 ? transpose(Md) : t == 1 ? Md : conj_dense(Md); etrans = t == 0; }
        std::vector<std::string> se; ld mr = 0;
        bool finite = true;
        for (auto &v : Xout) if (!(absl_(v) < INFINITY)) finite = false;
        if (!finite) {
            // a solution (or an intermediate of the triangular solves) outside the range of the working precision
            // is overflow, not instability: admitted only if the reference confirms the magnitude
            std::vector<cld> Xr; ld xm = 0, big = prec_is_single(c.prec) ? 3.4e38L : 1.7e308L;
            if (ref_solve(Aeff, Bin, c.nrhs, Xr)) for (auto &v : Xr) xm = std::max(xm, absl_(v));
            ld lum = 0; for (auto &v : L.a) lum = std::max(lum, absl_(v));
            ld uinv = 0; for (int i = 0; i < n; ++i) { ld d = absl_(U.at(i, i)); if (d > 0) uinv = std::max(uinv, 1 / d); }
            ld bm = 0; for (auto &v : Bin) bm = std::max(bm, absl_(v));
            if (xm * (1 + lum) * n > 1e-6L * big || bm * uinv * (1 + lum) * n > 1e-6L * big || ri.cond1 > 1 / eps) { o.excl["solution_overflows_precision"]++; return; }
            add_viol(o, "C01", "nonfinite_solution", fmt("X has non-finite entries although the exact solution has magnitude %.3Le (cond1 %.3Le)", xm, ri.cond1), opi);
            return;
        }
        check_solve(Aeff, etrans, pr, pc, L, U, Bin, Xout, c.nrhs, c.prec, se, &mr);
        for (auto &e : se) add_viol(o, "C01", "residual", e, opi);
        o.probes["solves_checked"]++;
    }
}

std::vector<cld> strip_ld(const std::vector<cld> &b, int n, int ldb, int nrhs) {
    std::vector<cld> o((size_t)n * nrhs);
    for (int j = 0; j < nrhs; ++j) for (int i = 0; i < n; ++i) o[(size_t)j * n + i] = b[(size_t)j * ldb + i];
    return o;
}

void fold_outputs(Ctx &x, long info) {
    sim::obs((uint64_t)info + 77);
    for (int v : x.drv->get_perm_r()) sim::obs((uint64_t)v + 3);
    for (int v : x.drv->get_perm_c()) sim::obs((uint64_t)v + 5);
    sim::obs(x.drv->B_hash()); sim::obs(x.drv->X_hash());
    if (x.drv->have_LU()) { LUDump d; x.drv->dump_LU(d); sim::obs(d.ok ? d.bits_hash : 1); }
}

} // namespace

Outcome run_case(Case &c, const RunnerOpts &ro) {
    Outcome out;
    Ctx x(c, out, ro);
    g_case = &c; g_out = &out; g_op = -1;
    int n = c.M.n;
    {   // sample description
        J s = J::obj();
        s.set("profile", c.profile).set("prec", prec_name(c.prec)).set("n", n).set("nnz", (long long)c.M.nnz()).set("family", c.family)
         .set("values", c.valclass).set("storage", c.stype_nr ? "NR" : "NC").set("nrhs", c.nrhs).set("colperm", c.colperm);
        J ops = J::arr();
        for (auto &op : c.ops) {
            J q = J::obj();
            q.set("op", opkind_name(op.kind)).set("nprocs", op.x.nprocs).set("u", op.x.u).set("w", (long long)op.ienv[1]).set("relax", (long long)op.ienv[2])
             .set("maxsuper", (long long)op.ienv[3]).set("strategy", op.sched.strategy).set("dyn", op.dyn_snode);
            ops.push(q);
        }
        s.set("ops", ops);
        out.sample = s;
    }
    x.drv.reset(make_drv(c.prec));
    Drv &drv = *x.drv;
    drv.set_matrix(c.M, c.stype_nr);
    if (c.colperm == 4 && (int)c.user_perm_c.size() == n) drv.set_perm_c(c.user_perm_c);
    else drv.get_perm_c_lib(c.colperm <= 3 ? c.colperm : 0);
    x.base_perm_c = drv.get_perm_c();
    if (!is_perm(x.base_perm_c, n)) add_viol(out, "C10", "ordering_not_bijection", "get_perm_c result is not a permutation", -1);

    for (int opi = 0; opi < (int)c.ops.size(); ++opi) {
        OpSpec &op = c.ops[opi];
        g_op = opi;
        for (int i = 0; i < 9; ++i) g_ienv[i] = op.ienv[i];
        g_sig_suffix = op.ienv[3] < op.ienv[2] ? "@maxsuper_lt_relax" : "";
        if (op.ienv[3] < op.ienv[2]) out.probes["cfg_maxsuper_lt_relax"]++;
        if (op.dyn_snode) setenv("SuperLU_DYNAMIC_SNODE_STORE", "1", 1); else unsetenv("SuperLU_DYNAMIC_SNODE_STORE");
        if (op.values_id != x.cur_values) { drv.set_values(c.values[op.values_id]); x.cur_values = op.values_id; }
        bool first_time = (op.kind == OP_GSSV) || ((op.kind == OP_GSSVX) && op.x.fact != 2 && !op.x.refact) || (op.kind == OP_ROUTE && !op.x.refact);
        if (first_time) drv.set_perm_c(x.base_perm_c);
        const std::vector<cld> &rhs = c.rhs[op.rhs_id < (int)c.rhs.size() ? op.rhs_id : 0];
        if (op.kind == OP_GSSV || op.kind == OP_GSSVX || op.kind == OP_ROUTE || op.kind == OP_GSTRS) drv.set_rhs(rhs, c.nrhs, c.ldb);
        std::vector<cld> Bin = strip_ld(rhs, n, c.ldb, c.nrhs);
        uint64_t a_hash0 = drv.A_hash(), b_hash0 = drv.B_hash();

        sim::RunConfig cfg;
        cfg.sched = op.sched; cfg.faults = op.faults; cfg.forced = op.forced; cfg.use_forced = op.use_forced;
        long budget = op.step_budget;
        if (budget <= 0) budget = ro.baseline_steps > 0 ? 64 * ro.baseline_steps + 10000 : 200000 + 400L * n * n + 4000L * n * op.x.nprocs;
        cfg.step_budget = budget;
        cfg.fill = (uint8_t)(0xA1 + (c.seed % 5) * 0x11);
        sim::reset_captured_stderr();
        monitor_begin_op(c, op, opi);
        sim::begin_run(cfg);
        sim::reset_alloc_count();
        sim::arm_alloc(true);
        long info = 0; XOut xo;
        switch (op.kind) {
        case OP_GSSV: info = drv.call_gssv(op.x.nprocs); break;
        case OP_GSSVX: drv.call_gssvx(op.x, xo); info = xo.info; break;
        case OP_ROUTE: info = drv.call_gstrf_route(op.x, op.do_solve); break;
        case OP_GSTRS: info = drv.call_gstrs(op.x.trans); break;
        case OP_DESTROY: drv.destroy_LU(op.x.lwork > 0); break;
        case OP_ROUTE_FINALIZE: drv.route_finalize(); break;
        }
        sim::arm_alloc(false);
        fold_outputs(x, info);
        sim::RunStats st;
        sim::end_run(st);
        monitor_end_op(out, opi, info);
        out.h_sched = sim::mix(out.h_sched, st.h_sched); out.h_obs = sim::mix(out.h_obs, st.h_obs); out.h_shape = sim::mix(out.h_shape, st.h_shape);
        out.steps += st.steps; out.decisions += st.decisions; out.switches += st.switches; out.events += st.events;
        if (ro.record) out.decisions_log.push_back(st.decisions_log);
        out.probes["spin_blocks"] += st.spin_blocks; out.probes["mutex_blocks"] += st.mutex_blocks; out.probes["idle_polls"] += st.idle_polls;
        out.probes["tasks_created"] += st.tasks_created;
        out.faults["alloc_fail_fired"] += st.alloc_faults_fired; out.faults["thread_create_fail_fired"] += st.create_faults_fired;
        if (op.x.nprocs > n) out.probes["nprocs_gt_n"]++;
        // C04: thread accounting at return
        if (st.tasks_created != st.tasks_finished || st.tasks_created != st.tasks_joined) {
            add_viol(out, "C04", "threads_left", fmt("created=%ld finished=%ld joined=%ld", st.tasks_created, st.tasks_finished, st.tasks_joined), opi);
            // parked threads cannot be reused: the process has to end here
            sim::die(sim::END_NORMAL, "threads left");
        }
        if (ro.verbose) fprintf(stderr, "[op %d %s] info=%ld steps=%ld decisions=%ld switches=%ld events=%ld allocs=%ld\n", opi, opkind_name(op.kind), info,
                                st.steps, st.decisions, st.switches, st.events, st.allocs);

        // ---- oracles
        bool a_same = drv.A_hash() == a_hash0;
        if (op.kind == OP_GSSV) {
            if (!a_same) add_viol(out, "C01", "A_modified", "simple driver changed A", opi);
            if (info == 0) {
                std::vector<cld> X = drv.get_B();
                eval_factorization(x, opi, op, info, true, Bin, X, 0, true);
            } else {
                eval_factorization(x, opi, op, info, false, Bin, Bin, 0, false);
                if (info > 0 && info <= n && drv.B_hash() != b_hash0) add_viol(out, "C06", "B_modified_on_singular", fmt("info=%ld", info), opi);
            }
        } else if (op.kind == OP_ROUTE) {
            if (!a_same) add_viol(out, "C02", "A_modified", "factorization changed A", opi);
            if (info <= -900) add_viol(out, "C01", "gstrs_info", fmt("?gstrs returned info=%ld", info + 1000), opi);
            else {
                std::vector<cld> X = drv.get_B();
                eval_factorization(x, opi, op, info, op.do_solve && info == 0, Bin, X, op.x.trans, true);
            }
        } else if (op.kind == OP_GSSVX) {
            if (op.x.fact == 0 && !a_same) add_viol(out, "C07", "A_modified", "expert driver with DOFACT changed A", opi);
            long infof = info == n + 1 ? 0 : info;
            if (op.x.fact != 2 && op.x.lwork != -1) {
                std::vector<cld> X = drv.get_X();
                // plain DOFACT path: refined X still has to satisfy the unrefined bound only loosely; checked by C07's profile
                eval_factorization(x, opi, op, infof, false, Bin, X, op.x.trans, true);
            }
        }
    }
    monitor_collect(out.viols, -1);
    monitor_probes(out.probes);
    g_case = nullptr; g_out = nullptr;
    return out;
}
