// Per-precision binding of the SuperLU_MT API.  Compiled four times with -DPREC_x.
#if defined(PREC_s)
#include "slu_mt_sdefs.h"
#define PP(x) ps##x
#define SS(x) s##x
#define MAKE make_drv_s
#define PRECID 0
typedef float scalar_t; typedef float real_t;
#define SLU_DT SLU_S
#elif defined(PREC_d)
#include "slu_mt_ddefs.h"
#define PP(x) pd##x
#define SS(x) d##x
#define MAKE make_drv_d
#define PRECID 1
typedef double scalar_t; typedef double real_t;
#define SLU_DT SLU_D
#elif defined(PREC_c)
#include "slu_mt_cdefs.h"
#define PP(x) pc##x
#define SS(x) c##x
#define MAKE make_drv_c
#define PRECID 2
typedef complex scalar_t; typedef float real_t;
#define SLU_DT SLU_C
#define ISCPX 1
#elif defined(PREC_z)
#include "slu_mt_zdefs.h"
#define PP(x) pz##x
#define SS(x) z##x
#define MAKE make_drv_z
#define PRECID 3
typedef doublecomplex scalar_t; typedef double real_t;
#define SLU_DT SLU_Z
#define ISCPX 1
#endif
#ifndef ISCPX
#define ISCPX 0
#endif

#include "drv.hh"
#include <cmath>
#if defined(PREC_s)
#define PP_TRSV sp_strsv
#elif defined(PREC_d)
#define PP_TRSV sp_dtrsv
#elif defined(PREC_c)
#define PP_TRSV sp_ctrsv
#else
#define PP_TRSV sp_ztrsv
#endif
#include "sim.hh"
#include <string.h>
#include <stdlib.h>

// not declared in the library's headers
extern "C" {
#if defined(PREC_s)
float slangs(char *, SuperMatrix *);
#elif defined(PREC_d)
double dlangs(char *, SuperMatrix *);
#elif defined(PREC_c)
float clangs(char *, SuperMatrix *);
#else
double zlangs(char *, SuperMatrix *);
#endif
}

namespace {

inline scalar_t to_native(cld v) {
#if ISCPX
    scalar_t s; s.r = (real_t)v.real(); s.i = (real_t)v.imag(); return s;
#else
    return (scalar_t)v.real();
#endif
}
inline cld from_native(const scalar_t &s) {
#if ISCPX
    return cld((ld)s.r, (ld)s.i);
#else
    return cld((ld)s, 0);
#endif
}
inline uint64_t hash_bytes(uint64_t h, const void *p, size_t n) {
    const unsigned char *b = (const unsigned char *)p;
    size_t i = 0;
    for (; i + 8 <= n; i += 8) { uint64_t v; memcpy(&v, b + i, 8); h = sim::mix(h, v); }
    uint64_t v = 0;
    if (i < n) { memcpy(&v, b + i, n - i); h = sim::mix(h, v ^ (uint64_t)(n - i)); }
    return h;
}

struct Impl : Drv {
    int n = 0, nrhs = 0, ldb = 0, ldx = 0, stype_nr = 0;
    std::vector<int_t> colptr, rowind, perm_c, perm_r;
    std::vector<scalar_t> aval, bval, xval;
    SuperMatrix A, B, X, L, U, AC;
    NCformat Astore; DNformat Bstore, Xstore;
    bool haveLU = false, haveAC = false, route_inited = false;
    superlumt_options_t opts;
    std::vector<int_t> etree, colcnt_h, part_super_h; // expert-driver option arrays (caller-owned)
    std::vector<real_t> R, C, ferr, berr;
    equed_t equed = NOEQUIL;
    Gstat_t Gstat; bool haveGstat = false; int gstat_nprocs = 0;
    std::vector<unsigned char> workbuf; void *work = nullptr; long lwork_cur = 0;
    static const size_t GUARD = 64;

    Impl() { memset(&A, 0, sizeof A); memset(&B, 0, sizeof B); memset(&X, 0, sizeof X); memset(&L, 0, sizeof L);
             memset(&U, 0, sizeof U); memset(&AC, 0, sizeof AC); memset(&opts, 0, sizeof opts); memset(&Gstat, 0, sizeof Gstat); }
    int prec() const override { return PRECID; }

    void wrapA() {
        A.Stype = stype_nr ? SLU_NR : SLU_NC; A.Dtype = SLU_DT; A.Mtype = SLU_GE;
        A.nrow = n; A.ncol = n; A.Store = &Astore;
        Astore.nnz = (int_t)aval.size(); Astore.nzval = aval.data(); Astore.rowind = rowind.data(); Astore.colptr = colptr.data();
    }
    void set_matrix(const Mat &M, int nr) override {
        n = M.n; stype_nr = nr;
        colptr.assign(M.colptr.begin(), M.colptr.end());
        rowind.assign(M.rowind.begin(), M.rowind.end());
        aval.resize(M.val.size());
        for (size_t i = 0; i < M.val.size(); ++i) aval[i] = to_native(M.val[i]);
        if (aval.empty()) aval.reserve(1);
        if (rowind.empty()) rowind.reserve(1);
        perm_c.assign(n, 0); perm_r.assign(n, 0);
        for (int i = 0; i < n; ++i) perm_c[i] = i;
        R.assign(n ? n : 1, 1); C.assign(n ? n : 1, 1);
        etree.assign(n ? n : 1, 0); colcnt_h.assign(n ? n : 1, 0); part_super_h.assign(n ? n : 1, 0);
        wrapA();
    }
    void set_values(const std::vector<cld> &v) override {
        for (size_t i = 0; i < v.size() && i < aval.size(); ++i) aval[i] = to_native(v[i]);
    }
    void set_rhs(const std::vector<cld> &Bv, int nr, int ld_) override {
        nrhs = nr; ldb = ld_;
        size_t sz = (size_t)ldb * (size_t)(nrhs > 0 ? nrhs : 0);
        bval.assign(sz ? sz : 1, to_native(cld(0, 0)));
        for (size_t i = 0; i < sz && i < Bv.size(); ++i) bval[i] = to_native(Bv[i]);
        // X has its own leading dimension (any value >= n is legal, and it need not equal B's)
        ldx = ldb + (ldb + nrhs + n) % 3;
        size_t szx = (size_t)ldx * (size_t)(nrhs > 0 ? nrhs : 0);
        xval.assign(szx ? szx : 1, to_native(cld(0, 0)));
        // poison X so that "left untouched" is observable
        for (size_t i = 0; i < xval.size(); ++i) xval[i] = to_native(cld(-7.25L - (ld)(i % 13), 0.5L));
        B.Stype = SLU_DN; B.Dtype = SLU_DT; B.Mtype = SLU_GE; B.nrow = n; B.ncol = nrhs; B.Store = &Bstore;
        Bstore.lda = ldb; Bstore.nzval = bval.data();
        X = B; X.Store = &Xstore; Xstore.lda = ldx; Xstore.nzval = xval.data();
        ferr.assign(nrhs > 0 ? nrhs : 1, 0); berr.assign(nrhs > 0 ? nrhs : 1, 0);
    }
    void set_perm_c(const std::vector<int> &pc) override { perm_c.assign(pc.begin(), pc.end()); }
    void set_perm_r(const std::vector<int> &pr) override { perm_r.assign(pr.begin(), pr.end()); }
    int get_perm_c_lib(int ispec) override {
        // the library's orderings expect the NC view
        SuperMatrix T = A; T.Stype = SLU_NC;
        ::get_perm_c(ispec, &T, perm_c.data());
        return 0;
    }

    long call_gssv(int nprocs) override {
        int_t info = -999;
        PP(gssv)(nprocs, &A, perm_c.data(), perm_r.data(), &L, &U, &B, &info);
        haveLU = (info >= 0 && info <= n);
        return (long)info;
    }

    void setup_work(const XOpts &o) {
        if (o.lwork > 0) {
            // exactly lwork bytes, canaries either side, seeded alignment offset
            workbuf.assign((size_t)o.lwork + 2 * GUARD + 16, 0xEE);
            uintptr_t base = (uintptr_t)workbuf.data() + GUARD;
            base = (base + 7) & ~(uintptr_t)7;
            base += (uintptr_t)(o.work_align % 8);
            work = (void *)base;
            // fill the usable part with a non-zero pattern too
            memset(work, 0xCD, (size_t)o.lwork);
            lwork_cur = o.lwork;
        } else { work = nullptr; lwork_cur = o.lwork; }
    }
    bool guards_ok() {
        if (lwork_cur <= 0 || !work) return true;
        unsigned char *lo = workbuf.data(), *w = (unsigned char *)work, *hi = w + lwork_cur, *end = workbuf.data() + workbuf.size();
        for (unsigned char *p = lo; p < w; ++p) if (*p != 0xEE) return false;
        for (unsigned char *p = hi; p < end; ++p) if (*p != 0xEE) return false;
        return true;
    }
    bool inside_work(const void *p) {
        if (!p) return true;
        return (const unsigned char *)p >= (unsigned char *)work && (const unsigned char *)p < (unsigned char *)work + lwork_cur;
    }
    std::string lu_outside_which;
    bool lu_inside() {
        lu_outside_which.clear();
        if (lwork_cur <= 0 || !haveLU) return true;
        SCPformat *Ls = (SCPformat *)L.Store; NCPformat *Us = (NCPformat *)U.Store;
        if (!Ls || !Us) return true;
        struct { const char *n; const void *p; } a[] = {{"L.nzval", Ls->nzval}, {"L.rowind", Ls->rowind}, {"L.nzval_colbeg", Ls->nzval_colbeg}, {"L.nzval_colend", Ls->nzval_colend},
            {"L.rowind_colbeg", Ls->rowind_colbeg}, {"L.rowind_colend", Ls->rowind_colend}, {"L.col_to_sup", Ls->col_to_sup}, {"L.sup_to_colbeg", Ls->sup_to_colbeg},
            {"L.sup_to_colend", Ls->sup_to_colend}, {"U.nzval", Us->nzval}, {"U.rowind", Us->rowind}, {"U.colbeg", Us->colbeg}, {"U.colend", Us->colend}};
        for (auto &e : a) if (!inside_work(e.p)) { lu_outside_which += e.n; lu_outside_which += ' '; }
        return lu_outside_which.empty();
    }

    void fill_opts(const XOpts &o) {
        opts.nprocs = o.nprocs; opts.fact = (fact_t)o.fact; opts.trans = (trans_t)o.trans; opts.refact = (yes_no_t)o.refact;
        opts.panel_size = o.panel_size; opts.relax = o.relax; opts.diag_pivot_thresh = o.u; opts.drop_tol = 0;
        opts.usepr = (yes_no_t)o.usepr; opts.SymmetricMode = (yes_no_t)o.sym_mode; opts.PrintStat = NO;
        opts.perm_c = perm_c.data(); opts.perm_r = perm_r.data();
        opts.work = work; opts.lwork = (int_t)lwork_cur;
    }

    void call_gssvx(const XOpts &o, XOut &out) override {
        if (!(o.refact || o.fact == FACTORED)) setup_work(o);
        else if (o.lwork == -1) lwork_cur = -1;
        fill_opts(o);
        opts.etree = etree.data(); opts.colcnt_h = colcnt_h.data(); opts.part_super_h = part_super_h.data();
        superlu_memusage_t mu; memset(&mu, 0, sizeof mu);
        int_t info = -999;
        real_t rpg = 0, rcond = 0;
        if (o.fact != FACTORED) {
            // equed, R, C are pure outputs unless fact = FACTORED: in half of the configurations hand them over holding
            // arbitrary legal-looking values (a caller may reuse one set of variables for unrelated systems)
            int k = (o.nprocs * 7 + o.panel_size * 3 + o.relax + o.trans * 5 + o.fact) % 8;
            if (k < 4) {
                equed = (equed_t)k;
                for (int i = 0; i < n; ++i) { R[i] = (real_t)std::ldexp(1.0, 2 * (i % 5) - 4); C[i] = (real_t)std::ldexp(1.0, 3 - 2 * (i % 4)); }
            }
        }
        PP(gssvx)(o.nprocs, &opts, &A, perm_c.data(), perm_r.data(), &equed, R.data(), C.data(), &L, &U, &B, &X,
                  &rpg, &rcond, ferr.data(), berr.data(), &mu, &info);
        out.info = (long)info; out.equed = (int)equed;
        out.R.assign(R.begin(), R.begin() + n); out.C.assign(C.begin(), C.begin() + n);
        out.ferr.assign(ferr.begin(), ferr.begin() + (nrhs > 0 ? nrhs : 0));
        out.berr.assign(berr.begin(), berr.begin() + (nrhs > 0 ? nrhs : 0));
        out.rpg = rpg; out.rcond = rcond;
        out.mem_for_lu = mu.for_lu; out.mem_total_needed = mu.total_needed; out.mem_expansions = mu.expansions;
        // a re-factorization that runs out of memory leaves the caller with the L and U it passed in (still to be destroyed by the caller)
        if (o.fact != FACTORED && o.lwork != -1 && !(o.refact && haveLU && info > n + 1)) haveLU = (info >= 0 && (info <= n + 1));
        out.work_guard_ok = guards_ok();
        out.lu_inside_work = lu_inside();
        out.lu_outside_which = lu_outside_which;
    }

    long call_gstrf_route(const XOpts &o, bool do_solve) override {
        if (!o.refact) setup_work(o);
        if (!haveGstat || gstat_nprocs < o.nprocs) {
            if (haveGstat) StatFree(&Gstat);
            StatAlloc(n, o.nprocs, o.panel_size, o.relax, &Gstat);
            haveGstat = true; gstat_nprocs = o.nprocs;
        }
        StatInit(n, o.nprocs, &Gstat);
        SuperMatrix *AA = &A;
        SuperMatrix T;
        trans_t tr = (trans_t)o.trans;
        if (stype_nr) { T = A; T.Stype = SLU_NC; AA = &T; tr = (tr == NOTRANS) ? TRANS : NOTRANS; }
        if (haveAC) { Destroy_CompCol_Permuted(&AC); haveAC = false; }
        PP(gstrf_init)(o.nprocs, (fact_t)o.fact, (trans_t)o.trans, (yes_no_t)o.refact, o.panel_size, o.relax, o.u,
                       (yes_no_t)o.usepr, 0.0, perm_c.data(), perm_r.data(), work, (int_t)lwork_cur, AA, &AC, &opts, &Gstat);
        opts.SymmetricMode = (yes_no_t)o.sym_mode;
        haveAC = true; route_inited = true;
        int_t info = -999;
        PP(gstrf)(&opts, &AC, perm_r.data(), &L, &U, &Gstat, &info);
        haveLU = (info >= 0 && info <= n);
        if (do_solve && info == 0) {
            int_t i2 = 0;
            bool cj = conj_around(o.trans);
            if (cj) conj_B();
            SS(gstrs)(tr, &L, &U, perm_r.data(), perm_c.data(), &B, &Gstat, &i2);
            if (cj) conj_B();
            if (i2) return -1000 + (long)i2;
        }
        return (long)info;
    }
    // A caller that holds A row-wise works with M = A**T as a column-compressed matrix: A X = B is M**T X = B, A**T X = B is M X = B, and
    // A**H X = B is conj(M) X = B, i.e. M conj(X) = conj(B) - the right-hand side is conjugated before and the solution after the solve
    bool conj_around(int trans) const { return ISCPX && stype_nr && trans == 2; }
    void conj_B() {
#if ISCPX
        for (auto &v : bval) v.i = -v.i;
#endif
    }
    void route_finalize() override {
        if (route_inited) { pxgstrf_finalize(&opts, &AC); route_inited = false; haveAC = false; }
        if (haveGstat) { StatFree(&Gstat); haveGstat = false; }
    }
    long call_gstrs(int trans) override {
        if (!haveGstat) { StatAlloc(n, 1, 8, 4, &Gstat); StatInit(n, 1, &Gstat); haveGstat = true; gstat_nprocs = 1; }
        trans_t tr = (trans_t)trans;
        if (stype_nr) tr = (tr == NOTRANS) ? TRANS : NOTRANS;
        int_t info = 0;
        bool cj = conj_around(trans);
        if (cj) conj_B();
        SS(gstrs)(tr, &L, &U, perm_r.data(), perm_c.data(), &B, &Gstat, &info);
        if (cj) conj_B();
        return (long)info;
    }
    void destroy_LU(bool user_work) override {
        if (!haveLU) return;
        if (user_work) { Destroy_SuperMatrix_Store(&L); Destroy_SuperMatrix_Store(&U); }
        else { Destroy_SuperNode_SCP(&L); Destroy_CompCol_NCP(&U); }
        haveLU = false;
    }
    bool have_LU() const override { return haveLU; }

    std::vector<cld> dense_out(const std::vector<scalar_t> &v, int ld_) {
        std::vector<cld> o((size_t)n * (size_t)(nrhs > 0 ? nrhs : 0));
        for (int j = 0; j < nrhs; ++j) for (int i = 0; i < n; ++i) o[(size_t)j * n + i] = from_native(v[(size_t)j * ld_ + i]);
        return o;
    }
    std::vector<cld> get_B() override { return dense_out(bval, ldb); }
    std::vector<cld> get_X() override { return dense_out(xval, ldx); }
    std::vector<int> get_perm_c() override { return std::vector<int>(perm_c.begin(), perm_c.end()); }
    std::vector<int> get_perm_r() override { return std::vector<int>(perm_r.begin(), perm_r.end()); }
    std::vector<cld> get_A_values() override { std::vector<cld> o(aval.size()); for (size_t i = 0; i < aval.size(); ++i) o[i] = from_native(aval[i]); return o; }
    uint64_t A_hash() override {
        uint64_t h = 11;
        h = hash_bytes(h, colptr.data(), colptr.size() * sizeof(int_t));
        h = hash_bytes(h, rowind.data(), rowind.size() * sizeof(int_t));
        h = hash_bytes(h, aval.data(), aval.size() * sizeof(scalar_t));
        h = sim::mix(h, (uint64_t)A.Stype * 131 + (uint64_t)A.nrow * 7 + (uint64_t)A.ncol);
        h = sim::mix(h, (uint64_t)Astore.nnz);
        h = sim::mix(h, (uint64_t)(Astore.nzval == aval.data()) + 2 * (uint64_t)(Astore.rowind == rowind.data()) + 4 * (uint64_t)(Astore.colptr == colptr.data()));
        return h;
    }
    uint64_t B_hash() override { return hash_bytes(13, bval.data(), bval.size() * sizeof(scalar_t)); }
    uint64_t X_hash() override { return hash_bytes(17, xval.data(), xval.size() * sizeof(scalar_t)); }
    cld round_to_prec(cld v) override { return from_native(to_native(v)); }
    std::vector<long> get_etree() override {
        std::vector<long> e;
        if (opts.etree) for (int i = 0; i < n; ++i) e.push_back((long)opts.etree[i]);
        return e;
    }

    long call_gscon(char norm, ld &anorm, ld &rcond) override {
        SuperMatrix T = A; T.Stype = SLU_NC;   // the route factorizes the stored arrays as a column-compressed matrix
        char nm[2] = {norm, 0};
        real_t an = SS(langs)(nm, &T), rc = -1;
        int_t info = -999;
        SS(gscon)(nm, &L, &U, an, &rc, &info);
        anorm = (ld)an; rcond = (ld)rc;
        return (long)info;
    }
    bool call_comprow_to_compcol(bool empty) override {
        scalar_t *at = nullptr; int_t *ri = nullptr, *cp = nullptr;
        std::vector<int_t> zptr((size_t)n + 1, 0);
        int_t nnz = empty ? 0 : (int_t)aval.size();
        // the stored arrays read as row-compressed: n rows, row pointers colptr, column indices rowind
        SS(CompRow_to_CompCol)(n, n, nnz, aval.data(), rowind.data(), empty ? zptr.data() : colptr.data(), &at, &ri, &cp);
        bool ok = cp != nullptr && cp[n] == nnz;
        if (ok && !empty) {
            // entry k of "row" r with column index c must appear in column c with row index r
            std::vector<int_t> cnt((size_t)n, 0);
            for (int r = 0; ok && r < n; ++r) for (int_t k = colptr[r]; k < colptr[r + 1]; ++k) {
                int_t c = rowind[k]; int_t pos = cp[c] + cnt[c]++;
                if (pos >= cp[c + 1] || ri[pos] != r || memcmp(&at[pos], &aval[k], sizeof(scalar_t)) != 0) { ok = false; break; }
            }
        }
        if (at) SUPERLU_FREE(at);
        if (ri) SUPERLU_FREE(ri);
        if (cp) SUPERLU_FREE(cp);
        return ok;
    }
    long call_trsv(const char *uplo, const char *trans, const char *diag, std::vector<cld> &xv) override {
        std::vector<scalar_t> w(xv.size() ? xv.size() : 1);
        for (size_t i = 0; i < xv.size(); ++i) w[i] = to_native(xv[i]);
        int_t info = 0;
        PP_TRSV((char *)uplo, (char *)trans, (char *)diag, &L, &U, w.data(), &info);
        for (size_t i = 0; i < xv.size(); ++i) xv[i] = from_native(w[i]);
        return (long)info;
    }

    void dump_LU(LUDump &d) override {
        d = LUDump();
        d.n = n;
        if (!haveLU) { d.why = "no factors"; return; }
        SCPformat *Ls = (SCPformat *)L.Store; NCPformat *Us = (NCPformat *)U.Store;
        if (!Ls || !Us) { d.why = "null store"; return; }
        if (L.nrow != n || L.ncol != n || U.nrow != n || U.ncol != n) { d.why = "L/U dimensions"; return; }
        if (L.Stype != SLU_SCP || U.Stype != SLU_NCP || L.Dtype != SLU_DT || U.Dtype != SLU_DT) { d.why = "L/U type tags"; return; }
        d.L_nnz = Ls->nnz; d.L_nsuper = Ls->nsuper; d.U_nnz = Us->nnz;
        if (d.L_nsuper < 0 || d.L_nsuper >= n) { d.why = "nsuper out of range"; return; }
        const long BIG = 1L << 40;
        uint64_t h = 23;
        d.col_to_sup.resize(n); d.rowind_colbeg.resize(n); d.rowind_colend.resize(n); d.nzval_colbeg.resize(n); d.nzval_colend.resize(n);
        d.U_colbeg.resize(n); d.U_colend.resize(n);
        for (int j = 0; j < n; ++j) {
            d.col_to_sup[j] = Ls->col_to_sup[j];
            d.rowind_colbeg[j] = Ls->rowind_colbeg[j]; d.rowind_colend[j] = Ls->rowind_colend[j];
            d.nzval_colbeg[j] = Ls->nzval_colbeg[j]; d.nzval_colend[j] = Ls->nzval_colend[j];
            d.U_colbeg[j] = Us->colbeg[j]; d.U_colend[j] = Us->colend[j];
            h = sim::mix(h, (uint64_t)d.col_to_sup[j]); h = sim::mix(h, (uint64_t)d.nzval_colbeg[j]); h = sim::mix(h, (uint64_t)d.nzval_colend[j]);
            h = sim::mix(h, (uint64_t)d.U_colbeg[j]); h = sim::mix(h, (uint64_t)d.U_colend[j]);
        }
        long ns = d.L_nsuper + 1;
        d.sup_to_colbeg.resize(ns); d.sup_to_colend.resize(ns);
        for (long s = 0; s < ns; ++s) {
            d.sup_to_colbeg[s] = Ls->sup_to_colbeg[s]; d.sup_to_colend[s] = Ls->sup_to_colend[s];
            h = sim::mix(h, (uint64_t)d.sup_to_colbeg[s]); h = sim::mix(h, (uint64_t)d.sup_to_colend[s]);
        }
        // values and subscripts; refuse to follow wild extents
        d.Lvals.resize(n); d.Uvals.resize(n); d.Urows.resize(n); d.Lrows.resize(ns);
        for (int j = 0; j < n; ++j) {
            long b = d.nzval_colbeg[j], e = d.nzval_colend[j];
            if (b < 0 || e < b || e > BIG || e - b > 4L * n + 16) { d.why = "L nzval extent"; return; }
            scalar_t *v = (scalar_t *)Ls->nzval;
            for (long k = b; k < e; ++k) d.Lvals[j].push_back(from_native(v[k]));
            h = hash_bytes(h, v + b, (size_t)(e - b) * sizeof(scalar_t));
            b = d.U_colbeg[j]; e = d.U_colend[j];
            if (b < 0 || e < b || e > BIG || e - b > 4L * n + 16) { d.why = "U extent"; return; }
            scalar_t *uv = (scalar_t *)Us->nzval;
            for (long k = b; k < e; ++k) { d.Uvals[j].push_back(from_native(uv[k])); d.Urows[j].push_back((long)Us->rowind[k]); }
            h = hash_bytes(h, uv + b, (size_t)(e - b) * sizeof(scalar_t));
            h = hash_bytes(h, Us->rowind + b, (size_t)(e - b) * sizeof(int_t));
        }
        for (long s = 0; s < ns; ++s) {
            long f = d.sup_to_colbeg[s];
            if (f < 0 || f >= n) { d.why = "sup_to_colbeg out of range"; return; }
            long b = d.rowind_colbeg[f], e = d.rowind_colend[f];
            if (b < 0 || e < b || e > BIG || e - b > 4L * n + 16) { d.why = "L rowind extent"; return; }
            for (long k = b; k < e; ++k) d.Lrows[s].push_back((long)Ls->rowind[k]);
            h = hash_bytes(h, Ls->rowind + b, (size_t)(e - b) * sizeof(int_t));
            h = sim::mix(h, (uint64_t)b);
        }
        h = sim::mix(h, (uint64_t)d.L_nnz); h = sim::mix(h, (uint64_t)d.U_nnz); h = sim::mix(h, (uint64_t)d.L_nsuper);
        d.bits_hash = h;
        d.ok = true;
    }
};

} // namespace

Drv *MAKE() { return new Impl(); }
