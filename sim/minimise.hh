// Shrinks a failing Case while the same violation class persists, writes the replay file, applies the gate.
#pragma once
#include "case.hh"
struct MinResult { std::string path; bool gate_ok = false; long runs = 0; std::string summary; };
J run_forked(const Case &c, double timeout_s, const std::string &errdir, long baseline_steps);
MinResult minimise_and_write(Case c, const std::string &prop, const std::string &sig, const std::string &replay_dir,
                             const std::string &errdir, double timeout_s, long max_runs, const std::string &flavour);
