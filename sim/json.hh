// Minimal JSON value (enough for replay files and result lines).
#pragma once
#include <string>
#include <vector>
#include <map>
#include <cstdio>
#include <cstdlib>
#include <cstring>
#include <cstdint>

struct J {
    enum T { NUL, BOOL, INT, DBL, STR, ARR, OBJ } t = NUL;
    bool b = false; long long i = 0; double d = 0; std::string s;
    std::vector<J> a; std::vector<std::pair<std::string, J>> o;
    J() {}
    J(bool v) : t(BOOL), b(v) {}
    J(int v) : t(INT), i(v) {}
    J(long v) : t(INT), i(v) {}
    J(long long v) : t(INT), i(v) {}
    J(unsigned long v) : t(INT), i((long long)v) {}
    J(double v) : t(DBL), d(v) {}
    J(const char *v) : t(STR), s(v) {}
    J(const std::string &v) : t(STR), s(v) {}
    static J arr() { J j; j.t = ARR; return j; }
    static J obj() { J j; j.t = OBJ; return j; }
    J &push(const J &v) { t = ARR; a.push_back(v); return *this; }
    J &set(const std::string &k, const J &v) {
        t = OBJ;
        for (auto &kv : o) if (kv.first == k) { kv.second = v; return *this; }
        o.emplace_back(k, v); return *this;
    }
    const J *get(const std::string &k) const { for (auto &kv : o) if (kv.first == k) return &kv.second; return nullptr; }
    bool has(const std::string &k) const { return get(k) != nullptr; }
    long long num(const std::string &k, long long def = 0) const { const J *j = get(k); if (!j) return def; return j->t == INT ? j->i : j->t == DBL ? (long long)j->d : j->t == BOOL ? j->b : def; }
    double dbl(const std::string &k, double def = 0) const { const J *j = get(k); if (!j) return def; return j->t == DBL ? j->d : j->t == INT ? (double)j->i : def; }
    std::string str(const std::string &k, const std::string &def = "") const { const J *j = get(k); return j && j->t == STR ? j->s : def; }

    static void esc(std::string &out, const std::string &s) {
        out += '"';
        for (unsigned char c : s) {
            if (c == '"') out += "\\\""; else if (c == '\\') out += "\\\\"; else if (c == '\n') out += "\\n";
            else if (c == '\t') out += "\\t"; else if (c == '\r') out += "\\r";
            else if (c < 0x20 || c >= 0x7f) { char b[8]; snprintf(b, sizeof b, "\\u%04x", c); out += b; }
            else out += (char)c;
        }
        out += '"';
    }
    void dump(std::string &out) const {
        char buf[64];
        switch (t) {
        case NUL: out += "null"; break;
        case BOOL: out += b ? "true" : "false"; break;
        case INT: snprintf(buf, sizeof buf, "%lld", i); out += buf; break;
        case DBL: if (d != d || d > 1e308 || d < -1e308) out += "null"; else { snprintf(buf, sizeof buf, "%.17g", d); out += buf; } break;
        case STR: esc(out, s); break;
        case ARR: out += '['; for (size_t k = 0; k < a.size(); ++k) { if (k) out += ','; a[k].dump(out); } out += ']'; break;
        case OBJ: out += '{'; for (size_t k = 0; k < o.size(); ++k) { if (k) out += ','; esc(out, o[k].first); out += ':'; o[k].second.dump(out); } out += '}'; break;
        }
    }
    std::string dump() const { std::string s; dump(s); return s; }

    // ---- parser
    static void ws(const char *&p) { while (*p == ' ' || *p == '\n' || *p == '\t' || *p == '\r') ++p; }
    static bool parse(const char *&p, J &out) {
        ws(p);
        if (*p == '{') {
            ++p; out = obj(); ws(p);
            if (*p == '}') { ++p; return true; }
            for (;;) {
                J k; ws(p); if (*p != '"' || !parse(p, k)) return false;
                ws(p); if (*p != ':') return false; ++p;
                J v; if (!parse(p, v)) return false;
                out.o.emplace_back(k.s, v);
                ws(p); if (*p == ',') { ++p; continue; } if (*p == '}') { ++p; return true; } return false;
            }
        } else if (*p == '[') {
            ++p; out = arr(); ws(p);
            if (*p == ']') { ++p; return true; }
            for (;;) {
                J v; if (!parse(p, v)) return false;
                out.a.push_back(v);
                ws(p); if (*p == ',') { ++p; continue; } if (*p == ']') { ++p; return true; } return false;
            }
        } else if (*p == '"') {
            ++p; out = J("");
            while (*p && *p != '"') {
                if (*p == '\\') {
                    ++p;
                    if (*p == 'n') out.s += '\n'; else if (*p == 't') out.s += '\t'; else if (*p == 'r') out.s += '\r';
                    else if (*p == 'u') { unsigned v = 0; sscanf(p + 1, "%4x", &v); out.s += (char)v; p += 4; }
                    else out.s += *p;
                    ++p;
                } else out.s += *p++;
            }
            if (*p != '"') return false; ++p; return true;
        } else if (!strncmp(p, "true", 4)) { p += 4; out = J(true); return true; }
        else if (!strncmp(p, "false", 5)) { p += 5; out = J(false); return true; }
        else if (!strncmp(p, "null", 4)) { p += 4; out = J(); return true; }
        else {
            char *e;
            const char *q = p; bool isint = true;
            if (*q == '-') ++q;
            while ((*q >= '0' && *q <= '9')) ++q;
            if (*q == '.' || *q == 'e' || *q == 'E') isint = false;
            if (isint) { long long v = strtoll(p, &e, 10); if (e == p) return false; p = e; out = J(v); return true; }
            double v = strtod(p, &e); if (e == p) return false; p = e; out = J(v); return true;
        }
    }
    static bool parse_str(const std::string &s, J &out) { const char *p = s.c_str(); return parse(p, out); }
};
