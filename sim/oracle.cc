#include "oracle.hh"
#include <cstdio>
#include <functional>

static std::string fmt(const char *f, ...) __attribute__((format(printf, 1, 2)));
#include <cstdarg>
static std::string fmt(const char *f, ...) {
    char b[512]; va_list ap; va_start(ap, f); vsnprintf(b, sizeof b, f, ap); va_end(ap); return b;
}

Dense csc_to_dense(const Mat &M, const std::vector<cld> &vals) {
    Dense D(M.n);
    for (int j = 0; j < M.n; ++j)
        for (int k = M.colptr[j]; k < M.colptr[j + 1]; ++k) D.at(M.rowind[k], j) += vals[k];
    return D;
}
Dense transpose(const Dense &A) { Dense T(A.n); for (int i = 0; i < A.n; ++i) for (int j = 0; j < A.n; ++j) T.at(j, i) = A.at(i, j); return T; }
Dense conj_dense(const Dense &A) { Dense T(A.n); for (size_t k = 0; k < A.a.size(); ++k) T.a[k] = std::conj(A.a[k]); return T; }
Dense conj_transpose(const Dense &A) { Dense T(A.n); for (int i = 0; i < A.n; ++i) for (int j = 0; j < A.n; ++j) T.at(j, i) = std::conj(A.at(i, j)); return T; }

static bool gepp(Dense &A, std::vector<int> &piv) {
    int n = A.n; piv.resize(n);
    for (int k = 0; k < n; ++k) {
        int p = k; ld best = absl_(A.at(k, k));
        for (int i = k + 1; i < n; ++i) { ld v = absl_(A.at(i, k)); if (v > best) { best = v; p = i; } }
        piv[k] = p;
        if (best == 0) return false;
        if (p != k) for (int j = 0; j < n; ++j) std::swap(A.at(k, j), A.at(p, j));
        cld d = A.at(k, k);
        for (int i = k + 1; i < n; ++i) {
            cld l = A.at(i, k) / d; A.at(i, k) = l;
            if (l != cld(0, 0)) for (int j = k + 1; j < n; ++j) A.at(i, j) -= l * A.at(k, j);
        }
    }
    return true;
}
static void lu_solve(const Dense &F, const std::vector<int> &piv, cld *x) {
    int n = F.n;
    for (int k = 0; k < n; ++k) if (piv[k] != k) std::swap(x[k], x[piv[k]]);
    for (int i = 0; i < n; ++i) { cld s = x[i]; for (int j = 0; j < i; ++j) s -= F.at(i, j) * x[j]; x[i] = s; }
    for (int i = n - 1; i >= 0; --i) { cld s = x[i]; for (int j = i + 1; j < n; ++j) s -= F.at(i, j) * x[j]; x[i] = s / F.at(i, i); }
}

RefInfo ref_analyse(const Dense &A, bool want_inverse) {
    RefInfo r; int n = A.n;
    for (int j = 0; j < n; ++j) { ld s = 0; for (int i = 0; i < n; ++i) s += absl_(A.at(i, j)); r.norm1 = std::max(r.norm1, s); }
    for (int i = 0; i < n; ++i) { ld s = 0; for (int j = 0; j < n; ++j) s += absl_(A.at(i, j)); r.norminf = std::max(r.norminf, s); }
    Dense F = A; std::vector<int> piv;
    if (!gepp(F, piv)) { r.singular = true; r.cond1 = r.condinf = INFINITY; return r; }
    r.inv = Dense(n);
    std::vector<cld> e(n);
    for (int j = 0; j < n; ++j) {
        std::fill(e.begin(), e.end(), cld(0, 0)); e[j] = 1;
        lu_solve(F, piv, e.data());
        for (int i = 0; i < n; ++i) r.inv.at(i, j) = e[i];
    }
    ld i1 = 0, ii = 0;
    for (int j = 0; j < n; ++j) { ld s = 0; for (int i = 0; i < n; ++i) s += absl_(r.inv.at(i, j)); i1 = std::max(i1, s); }
    for (int i = 0; i < n; ++i) { ld s = 0; for (int j = 0; j < n; ++j) s += absl_(r.inv.at(i, j)); ii = std::max(ii, s); }
    r.cond1 = r.norm1 * i1; r.condinf = r.norminf * ii;
    if (!(r.cond1 == r.cond1)) { r.singular = true; r.cond1 = r.condinf = INFINITY; }
    if (!want_inverse) r.inv = Dense();
    return r;
}

bool ref_solve(const Dense &A, const std::vector<cld> &B, int nrhs, std::vector<cld> &X) {
    Dense F = A; std::vector<int> piv; int n = A.n;
    if (!gepp(F, piv)) return false;
    X = B;
    for (int j = 0; j < nrhs; ++j) lu_solve(F, piv, X.data() + (size_t)j * n);
    // fixed-precision refinement in long double: makes the reference componentwise accurate even when the
    // normwise condition number is large (the library's error bounds are componentwise)
    std::vector<cld> r(n);
    for (int it = 0; it < 3; ++it)
        for (int j = 0; j < nrhs; ++j) {
            cld *x = X.data() + (size_t)j * n; const cld *b = B.data() + (size_t)j * n;
            for (int i = 0; i < n; ++i) { cld s = b[i]; for (int k = 0; k < n; ++k) s -= A.at(i, k) * x[k]; r[i] = s; }
            lu_solve(F, piv, r.data());
            for (int i = 0; i < n; ++i) x[i] += r[i];
        }
    return true;
}

bool is_perm(const std::vector<int> &p, int n) {
    if ((int)p.size() != n) return false;
    std::vector<char> seen(n, 0);
    for (int v : p) { if (v < 0 || v >= n || seen[v]) return false; seen[v] = 1; }
    return true;
}

void check_structure(const LUDump &d, const std::vector<int> &perm_r, const std::vector<int> &perm_c, std::vector<std::string> &errs) {
    long n = d.n;
    if (!is_perm(perm_r, (int)n)) errs.push_back("perm_r is not a bijection");
    if (!is_perm(perm_c, (int)n)) errs.push_back("perm_c is not a bijection");
    if (!d.ok) { errs.push_back("L/U unreadable: " + d.why); return; }
    long ns = d.L_nsuper + 1;
    // supernode partition and map consistency
    std::vector<long> owner(n, -1);
    for (long s = 0; s < ns; ++s) {
        long b = d.sup_to_colbeg[s], e = d.sup_to_colend[s];
        if (b < 0 || e <= b || e > n) { errs.push_back(fmt("supernode %ld has column range [%ld,%ld)", s, b, e)); return; }
        for (long j = b; j < e; ++j) {
            if (owner[j] != -1) { errs.push_back(fmt("column %ld lies in supernodes %ld and %ld", j, owner[j], s)); return; }
            owner[j] = s;
            if (d.col_to_sup[j] != s) { errs.push_back(fmt("col_to_sup[%ld]=%ld but column lies in supernode %ld", j, d.col_to_sup[j], s)); return; }
        }
    }
    for (long j = 0; j < n; ++j) if (owner[j] < 0) { errs.push_back(fmt("column %ld belongs to no supernode", j)); return; }
    // row lists
    std::vector<long> mark(n, -1);
    long cntL = 0, cntUsn = 0;
    std::vector<std::pair<long, long>> ext_rowind, ext_nz, ext_u;
    for (long s = 0; s < ns; ++s) {
        long b = d.sup_to_colbeg[s], e = d.sup_to_colend[s], nsupc = e - b;
        const std::vector<long> &r = d.Lrows[s];
        long nsupr = (long)r.size();
        if (nsupr < nsupc) { errs.push_back(fmt("supernode %ld: %ld rows < %ld columns", s, nsupr, nsupc)); return; }
        for (long k = 0; k < nsupc; ++k) if (r[k] != b + k) { errs.push_back(fmt("supernode %ld: row list entry %ld is %ld, expected own column %ld", s, k, r[k], b + k)); return; }
        for (long k = nsupc; k < nsupr; ++k) {
            if (r[k] < e || r[k] >= n) { errs.push_back(fmt("supernode %ld: off-diagonal row %ld not in (%ld,%ld)", s, r[k], e - 1, n)); return; }
            if (mark[r[k]] == s) { errs.push_back(fmt("supernode %ld: duplicate row %ld", s, r[k])); return; }
            mark[r[k]] = s;
            // dependency order used by the solves
            if (owner[r[k]] <= s) { errs.push_back(fmt("L(%ld,%ld..): row's supernode %ld does not come after supernode %ld", r[k], b, owner[r[k]], s)); return; }
        }
        ext_rowind.push_back({d.rowind_colbeg[b], d.rowind_colend[b]});
        for (long j = b; j < e; ++j) {
            long nb = d.nzval_colbeg[j], ne = d.nzval_colend[j];
            if (ne - nb != nsupr) { errs.push_back(fmt("column %ld: %ld stored values, supernode has %ld rows", j, ne - nb, nsupr)); return; }
            if (nb != d.nzval_colbeg[b] + (j - b) * nsupr) { errs.push_back(fmt("column %ld: values not contiguous within supernode %ld", j, s)); return; }
            cntL += nsupr - (j - b);
            cntUsn += (j - b) + 1;
        }
        ext_nz.push_back({d.nzval_colbeg[b], d.nzval_colend[e - 1]});
    }
    // U columns
    long cntU = 0;
    for (long j = 0; j < n; ++j) {
        long fs = d.sup_to_colbeg[owner[j]];
        std::fill(mark.begin(), mark.end(), -1);
        for (long rr : d.Urows[j]) {
            if (rr < 0 || rr >= fs) { errs.push_back(fmt("U(%ld,%ld) not strictly above supernode starting at %ld", rr, j, fs)); return; }
            if (mark[rr] == j) { errs.push_back(fmt("U column %ld: duplicate row %ld", j, rr)); return; }
            mark[rr] = j;
            if (owner[rr] >= owner[j]) { errs.push_back(fmt("U(%ld,%ld): row's supernode %ld does not come before supernode %ld", rr, j, owner[rr], owner[j])); return; }
        }
        cntU += (long)d.Urows[j].size();
        if (d.U_colend[j] > d.U_colbeg[j]) ext_u.push_back({d.U_colbeg[j], d.U_colend[j]});
    }
    auto overlap = [&](std::vector<std::pair<long, long>> v, const char *what) {
        std::sort(v.begin(), v.end());
        for (size_t i = 1; i < v.size(); ++i) if (v[i].first < v[i - 1].second) { errs.push_back(fmt("%s extents overlap: [%ld,%ld) and [%ld,%ld)", what, v[i - 1].first, v[i - 1].second, v[i].first, v[i].second)); return; }
    };
    overlap(ext_rowind, "L subscript"); overlap(ext_nz, "L value"); overlap(ext_u, "U column");
    if (d.L_nnz != cntL) errs.push_back(fmt("L nnz field %ld != counted %ld", d.L_nnz, cntL));
    if (d.U_nnz != cntU + cntUsn) errs.push_back(fmt("U nnz field %ld != counted %ld", d.U_nnz, cntU + cntUsn));
}

bool expand_LU(const LUDump &d, Dense &L, Dense &U) {
    if (!d.ok) return false;
    int n = (int)d.n;
    L = Dense(n); U = Dense(n);
    long ns = d.L_nsuper + 1;
    for (int i = 0; i < n; ++i) L.at(i, i) = 1;
    for (long s = 0; s < ns; ++s) {
        long b = d.sup_to_colbeg[s], e = d.sup_to_colend[s];
        if (b < 0 || e > n || e < b) return false;
        const std::vector<long> &r = d.Lrows[s];
        for (long j = b; j < e; ++j) {
            const std::vector<cld> &v = d.Lvals[j];
            if (v.size() != r.size()) return false;
            for (size_t k = 0; k < r.size(); ++k) {
                long row = r[k];
                if (row < 0 || row >= n) return false;
                if ((long)k <= j - b) U.at((int)row, (int)j) = v[k];
                else L.at((int)row, (int)j) = v[k];
            }
        }
    }
    for (int j = 0; j < n; ++j)
        for (size_t k = 0; k < d.Urows[j].size(); ++k) {
            long row = d.Urows[j][k];
            if (row < 0 || row >= n) return false;
            U.at((int)row, j) = d.Uvals[j][k];
        }
    return true;
}

void check_factor(const Dense &Md, const std::vector<int> &perm_r, const std::vector<int> &perm_c, const Dense &L, const Dense &U,
                  int prec, double u, bool usepr, bool check_diag, FactorCheck &out) {
    int n = Md.n;
    ld eps = eps_eff(prec), g = gamma_k(n, eps), delta = 0x1p-20L;
    bool cpx = prec_is_complex(prec);
    Dense P(n);
    for (int i = 0; i < n; ++i) for (int j = 0; j < n; ++j) P.at(perm_r[i], perm_c[j]) = Md.at(i, j);
    ld maxM = 0, maxW = 0;
    // absolute slack for gradual underflow (the gamma model assumes none): eta = smallest subnormal of the working precision
    ld eta = prec_is_single(prec) ? 0x1p-149L : 0x1p-1074L, maxL = 1;
    for (auto &v : L.a) maxL = std::max(maxL, absl_(v));
    ld uslack = 4 * (ld)(n + 1) * eta * maxL;
    // (a)
    std::vector<ld> aL((size_t)n * n), aU((size_t)n * n);
    for (size_t k = 0; k < aL.size(); ++k) { aL[k] = absl_(L.a[k]); aU[k] = absl_(U.a[k]); }
    for (int i = 0; i < n; ++i) {
        for (int j = 0; j < n; ++j) {
            cld r = 0; ld w = 0;
            int kmax = std::min(i, j);
            for (int k = 0; k <= kmax; ++k) { r += L.at(i, k) * U.at(k, j); w += aL[(size_t)i * n + k] * aU[(size_t)k * n + j]; }
            ld diff = absl_(P.at(i, j) - r), bound = g * w * (1 + delta) + uslack;
            maxM = std::max(maxM, absl_(P.at(i, j))); maxW = std::max(maxW, w);
            if (w > 0) out.max_ratio_a = std::max(out.max_ratio_a, diff / (g * w));
            if (!(diff <= bound)) {
                // quantities in the gradual-underflow range carry no relative accuracy at all
                ld tiny = (prec_is_single(prec) ? 0x1p-126L : 0x1p-1022L) * 1e6L * (ld)(n + 1) * maxL;
                if (diff <= tiny) { continue; }
                if (out.errs_a.size() < 3) out.errs_a.push_back(fmt("|PrAPc-LU|(%d,%d)=%.3Le > gamma_n|L||U|=%.3Le", i, j, diff, bound));
            }
        }
    }
    out.growth = maxM > 0 ? maxW / maxM : 0;
    // (b) multipliers
    ld realu = prec_is_single(prec) ? (ld)(float)u : (ld)u;
    if (realu > 0) {
        ld lim = (cpx ? sqrtl(2.0L) : 1.0L) / realu * (1 + 8 * prec_eps(prec));
        for (int j = 0; j < n; ++j) for (int i = j + 1; i < n; ++i) {
            ld m = absl_(L.at(i, j));
            if (!(m <= lim)) { if (out.errs_b.size() < 3) out.errs_b.push_back(fmt("|l(%d,%d)|=%.6Lg > %.6Lg (u=%.4g)", i, j, m, lim, u)); }
        }
    }
    // (c) diagonal preference
    if (check_diag && !usepr) {
        std::vector<int> ipc(n); for (int c = 0; c < n; ++c) ipc[perm_c[c]] = c;
        ld band = 8 * prec_eps(prec);
        for (int j = 0; j < n; ++j) {
            int c = ipc[j];       // original column; its diagonal entry sits in original row c
            int p = perm_r[c];    // where that row ended up
            if (p != j) ++out.offdiag_pivots;
            if (p < j) continue;  // row already consumed: not a candidate
            cld ujj = U.at(j, j);
            auto mag = [&](cld v) { return cpx ? abs1_(v) : absl_(v); };
            ld vmax = mag(ujj);
            for (int q = j + 1; q < n; ++q) vmax = std::max(vmax, mag(L.at(q, j) * ujj));
            cld vc = (p == j) ? ujj : L.at(p, j) * ujj;
            ld m = mag(vc);
            if (m == 0) continue;
            ++out.diag_checked;
            if (p == j) { ++out.diag_taken; continue; }
            if (m >= realu * vmax * (1 + band)) {
                if (out.errs_c.size() < 3) out.errs_c.push_back(fmt("column %d: diagonal candidate %.6Lg >= u*max=%.6Lg but pivot row differs", j, m, realu * vmax));
            } else if (m >= realu * vmax * (1 - band)) ++out.tie_excluded;
        }
    }
}

void check_solve(const Dense &Aeff, bool etrans, const std::vector<int> &perm_r, const std::vector<int> &perm_c, const Dense &L, const Dense &U,
                 const std::vector<cld> &B, const std::vector<cld> &X, int nrhs, int prec, std::vector<std::string> &errs, ld *max_ratio) {
    int n = Aeff.n;
    ld eps = eps_eff(prec), g = gamma_k(3L * n, eps), delta = 0x1p-20L;
    // W = |L||U| in permuted coordinates
    std::vector<ld> W((size_t)n * n, 0);
    for (int i = 0; i < n; ++i) for (int j = 0; j < n; ++j) {
        ld w = 0; int kmax = std::min(i, j);
        for (int k = 0; k <= kmax; ++k) w += absl_(L.at(i, k)) * absl_(U.at(k, j));
        W[(size_t)i * n + j] = w;
    }
    if (max_ratio) *max_ratio = 0;
    ld eta = prec_is_single(prec) ? 0x1p-149L : 0x1p-1074L, maxLU = 1;
    for (auto &v : L.a) maxLU = std::max(maxLU, absl_(v));
    for (auto &v : U.a) maxLU = std::max(maxLU, absl_(v));
    for (int c = 0; c < nrhs; ++c) {
        const cld *x = X.data() + (size_t)c * n, *b = B.data() + (size_t)c * n;
        for (int i = 0; i < n; ++i) {
            if (!(x[i] == x[i])) { errs.push_back(fmt("X(%d,%d) is NaN", i, c)); return; }
        }
        for (int i = 0; i < n; ++i) {
            cld r = b[i]; ld bd = 0;
            for (int j = 0; j < n; ++j) {
                cld a; ld e;
                a = Aeff.at(i, j);
                e = etrans ? W[(size_t)perm_r[j] * n + perm_c[i]] : W[(size_t)perm_r[i] * n + perm_c[j]];
                r -= a * x[j]; bd += e * absl_(x[j]);
            }
            ld res = absl_(r), bound = g * bd * (1 + delta) + 12 * (ld)(n + 1) * eta * maxLU * maxLU;
            if (max_ratio && bd > 0) *max_ratio = std::max(*max_ratio, res / (g * bd));
            if (!(res <= bound)) { if (errs.size() < 3) errs.push_back(fmt("|B-AX|(%d,%d)=%.3Le > gamma_3n E|X|=%.3Le", i, c, res, bound)); }
        }
    }
}

std::vector<ld> true_berr(const Dense &A, const std::vector<cld> &B, const std::vector<cld> &X, int nrhs, bool use_abs1, std::vector<ld> *min_pos_den) {
    // use_abs1: measure complex magnitudes by |re|+|im| (the LAPACK CABS1 convention the library's berr is defined with)
    int n = A.n; std::vector<ld> w(nrhs, 0);
    if (min_pos_den) min_pos_den->assign(nrhs, INFINITY);
    auto mag = [&](cld v) { return use_abs1 ? abs1_(v) : absl_(v); };
    for (int c = 0; c < nrhs; ++c) {
        const cld *x = X.data() + (size_t)c * n, *b = B.data() + (size_t)c * n;
        for (int i = 0; i < n; ++i) {
            cld r = b[i]; ld den = mag(b[i]);
            for (int j = 0; j < n; ++j) {
                cld a = A.at(i, j);
                r -= a * x[j]; den += mag(a) * mag(x[j]);
            }
            ld v = mag(r);
            if (den > 0 && min_pos_den) (*min_pos_den)[c] = std::min((*min_pos_den)[c], den);
            if (den > 0) w[c] = std::max(w[c], v / den);
            else if (v > 0) w[c] = INFINITY;
        }
    }
    return w;
}

long first_struct_deficient(const Mat &M, const std::vector<int> &col_order) {
    int n = M.n;
    std::vector<int> match_row(n, -1); // row -> column (position)
    std::vector<int> seen(n, -1);
    std::function<bool(int, int)> aug = [&](int pos, int stamp) -> bool {
        int c = col_order[pos];
        for (int k = M.colptr[c]; k < M.colptr[c + 1]; ++k) {
            int r = M.rowind[k];
            if (seen[r] == stamp) continue;
            seen[r] = stamp;
            if (match_row[r] < 0 || aug(match_row[r], stamp)) { match_row[r] = pos; return true; }
        }
        return false;
    };
    for (int pos = 0; pos < n; ++pos) if (!aug(pos, pos)) return pos + 1;
    return 0;
}

long first_symbolic_empty(const Mat &M, const std::vector<int> &col_order, const std::vector<int> &perm_r) {
    int n = M.n;
    std::vector<int> prow(n, -1);
    for (int r = 0; r < n; ++r) { int k = perm_r[r]; if (k >= 0 && k < n && prow[k] < 0) prow[k] = r; }
    std::vector<std::vector<int>> Ls(n);          // rows of column k strictly below its pivot (structure of L(:,k))
    std::vector<int> pivoted_at(n, -1);           // row -> position at which it became a pivot
    std::vector<int> mark(n, -1);
    for (int j = 0; j < n; ++j) {
        int c = col_order[j];
        std::vector<int> st;
        for (int k = M.colptr[c]; k < M.colptr[c + 1]; ++k) if (mark[M.rowind[k]] != j) { mark[M.rowind[k]] = j; st.push_back(M.rowind[k]); }
        // apply earlier columns in order: column k contributes if its pivot row is in the structure
        // (process in increasing k so that fill from k can trigger later columns)
        std::vector<char> inst(n, 0); for (int r : st) inst[r] = 1;
        for (int k = 0; k < j; ++k) {
            int pr = prow[k];
            if (pr < 0) return -1;
            if (!inst[pr]) continue;
            for (int r : Ls[k]) if (!inst[r]) { inst[r] = 1; st.push_back(r); }
        }
        std::vector<int> cand;
        for (int r : st) if (pivoted_at[r] < 0) cand.push_back(r);
        if (cand.empty()) return j;
        int pr = prow[j];
        if (pr < 0 || pivoted_at[pr] >= 0) return -1;       // library's choice unusable from here on
        bool incand = false; for (int r : cand) if (r == pr) incand = true;
        if (!incand) return -1;                              // pivot row outside the symbolic structure (supernode union): stop
        pivoted_at[pr] = j;
        for (int r : cand) if (r != pr) Ls[j].push_back(r);
    }
    return -1;
}
